#!/bin/bash
# Run the repository's pinned suite with the verification guard OFF and compare with BASELINE.json.
# usage: baseline.sh [repo_dir]   (default /repo)
# Prints the stable_pass tests that did not pass; exit 0 iff none.
# (nextest cannot list the sqllogictest_suite binary here - its git submodule is absent - so that
#  binary is excluded; the baseline itself was recorded with the `cargo test` fallback, which also
#  runs doctests, so those are run separately.)
REPO=${1:-/repo}
cd "$REPO" || exit 2
export RUSTC_WRAPPER= CARGO_NET_OFFLINE=true
unset RUSTFLAGS
OUT=${BASELINE_OUT:-/dev/shm/baseline.$$}
mkdir -p "$OUT"
if [ -z "$BASELINE_REUSE" ]; then
cargo nextest run --workspace --no-fail-fast --tool-config-file pb:/w/lib/nextest.toml --profile pb --test-threads 8 --offline -E 'not binary(sqllogictest_suite)' > "$OUT/nextest.log" 2>&1
cargo test --workspace --doc --no-fail-fast --offline > "$OUT/doctest.log" 2>&1
fi
J="$REPO/target/nextest/pb/junit.xml"
python3 - "$J" "$OUT/doctest.log" <<'PY'
import sys, json, re, xml.etree.ElementTree as ET
base = json.load(open('/root/.vp/BASELINE.json'))
stable = set(base['stable_pass'])
t = ET.parse(sys.argv[1]).getroot()
passed=set(); failed=set()
for ts in t.iter('testsuite'):
    sn = ts.get('name'); parts = sn.split('::')
    for tc in ts.iter('testcase'):
        name = tc.get('name')
        bad = any(ch.tag in ('failure','error') for ch in tc)
        last = parts[-1].split('/')[-1]
        for c in {last+'::'+name, last.replace('-','_')+'::'+name, parts[0].replace('-','_')+'::'+name, parts[0].replace('-','_').replace('_bindings','')+'::'+name}:
            (failed if bad else passed).add(c)
crate = None
for line in open(sys.argv[2], errors='replace'):
    m = re.match(r'\s*Doc-tests (\S+)', line)
    if m: crate = m.group(1); continue
    m = re.match(r'test (.*) \.\.\. (ok|FAILED|ignored)', line.strip())
    if m and crate:
        n = 'doctest:%s::%s' % (crate, m.group(1))
        (passed if m.group(2)=='ok' else failed).add(n)
def ok(s):
    return s in passed or s.replace(' - should panic','') in passed
missing = sorted(s for s in stable if not ok(s))
print("stable_pass:", len(stable), "passed-of-stable:", len(stable)-len(missing))
for m in missing[:60]:
    print("NOT-PASSED", m, "(failed)" if m in failed else "(absent)")
sys.exit(1 if missing else 0)
PY
