#!/bin/bash
# Re-run every seeded change against the quick check of its property (with the known-findings guards
# active) and print one line per change. Leaves /repo clean.
cd /verif || exit 2
for d in seeded/*/; do
  # the checks to run: the change's property, or the list in meta.json's run_checks (a change written against one
  # property may be a violation of another one's statement)
  p=$(python3 -c "import json;m=json.load(open('$d/meta.json'));print(m.get('run_checks', m['property']))")
  out=$(tools/try_mutant.sh "/verif/$d/patch.diff" $p 2>&1)
  rc=$(echo "$out" | grep -o "rc=[0-9]*" | sort -r | head -1)
  echo "$(basename $d) $p $rc $(echo "$out" | grep -E '^violation|oracle=' | head -1 | cut -c1-120)"
done
/verif/check build >/dev/null 2>&1
