#!/usr/bin/env python3
"""Splice tools/asbuilt.md (with generated tables) into DESIGN.md between the markers
<!-- ASBUILT-BEGIN --> and <!-- ASBUILT-END --> (inserted before '## 1.' the first time)."""
import json, os, glob, re
ROOT = os.path.dirname(os.path.dirname(os.path.abspath(__file__)))
kf = json.load(open(ROOT + "/known_findings.json"))["findings"]
fixed = [f for f in kf if f["status"] == "fixed"]
openf = [f for f in kf if f["status"] != "fixed"]
by = {}
for f in fixed:
    by.setdefault(f["property"], []).append(f)
lines = [f"{len(fixed)} genuine defects were repaired in `/repo`, one `fix:` commit each (first reporting check → what failed):", ""]
for p in sorted(by):
    lines.append(f"* **{p}** ({len(by[p])}):")
    for f in by[p]:
        w = f["what"].split(" ", 3)[3] if f["what"].startswith("fixed:") else f["what"]
        lines.append(f"  * {w}")
fixed_md = "\n".join(lines)
open_md = "\n".join(f"* `{f['id']}` (guard `{', '.join(f.get('guards', []))}`): {f['what']}" for f in openf)
rows = ["| id | property | change | first run of the checks | after strengthening |", "|---|---|---|---|---|"]
for d in sorted(glob.glob(ROOT + "/seeded/*/")):
    m = json.load(open(d + "meta.json"))
    name = os.path.basename(d.rstrip("/"))
    det = m.get("detected_by", "")
    missed = det.lower().startswith("missed") or det.startswith("NOT DETECTED") or "missed at first" in det.lower() or "caught only after" in det.lower() or "only after" in det.lower()
    summ = re.sub(r"\s+", " ", m.get("summary", ""))[:230]
    if missed:
        first, after = "missed", re.sub(r"\s+", " ", det)
    else:
        first, after = re.sub(r"\s+", " ", det), ""
    rows.append(f"| {name.split('-')[0]} | {m['property']} | {summ} | {first} | {after} |")
mut_md = "\n".join(rows)
body = open(ROOT + "/tools/asbuilt.md").read().replace("@@FIXED_SUMMARY@@", fixed_md).replace("@@OPEN_FINDINGS@@", open_md).replace("@@MUTANT_TABLE@@", mut_md)
block = "<!-- ASBUILT-BEGIN -->\n" + body.rstrip() + "\n\n---------------------------------------------------------------------------\n<!-- ASBUILT-END -->\n"
d = open(ROOT + "/DESIGN.md").read()
if "<!-- ASBUILT-BEGIN -->" in d:
    d = re.sub(r"<!-- ASBUILT-BEGIN -->.*?<!-- ASBUILT-END -->\n", lambda _: block, d, flags=re.S)
else:
    i = d.index("## 1. What vibesql offers this technique")
    d = d[:i] + block + "\n" + d[i:]
open(ROOT + "/DESIGN.md", "w").write(d)
print("DESIGN.md updated:", len(fixed), "fixed,", len(openf), "open,", len(rows) - 2, "seeded changes")
