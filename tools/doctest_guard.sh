#!/bin/bash
# Doctest names in BASELINE.json carry line numbers: a fix must not move lines above a doctest.
# Lists files changed since the pinned commit whose first changed line precedes a doctest.
cd /repo || exit 2
BASE=${1:-258d8c92}
bad=0
for f in $(git diff --name-only $BASE HEAD -- '*.rs'; git diff --name-only -- '*.rs'); do
  first=$(git diff -U0 $BASE -- $f | grep -m1 "^@@" | sed 's/@@ -\([0-9]*\).*/\1/')
  last_doc=$(grep -n '/// ```\|//! ```' $f | tail -1 | cut -d: -f1)
  if [ -n "$last_doc" ] && [ -n "$first" ] && [ "$first" -lt "$last_doc" ]; then echo "SHIFT-RISK $f first_change=$first last_doctest_line=$last_doc"; bad=1; fi
done
exit $bad
