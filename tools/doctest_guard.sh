#!/bin/bash
# Doctest names in BASELINE.json carry line numbers: a change must not move lines above a doctest
# that is in the stable_pass list. Lists changed files whose first changed line precedes such a doctest.
cd /repo || exit 2
BASE=${1:-258d8c92}
python3 - "$BASE" <<'PY'
import json, re, subprocess, sys
base = sys.argv[1]
stable = json.load(open('/root/.vp/BASELINE.json'))['stable_pass']
doc = {}
for s in stable:
    m = re.match(r'doctest:[^:]+::(\S+) - .*\(line (\d+)\)', s)
    if m:
        doc.setdefault(m.group(1), []).append(int(m.group(2)))
files = set(subprocess.run(['git','diff','--name-only',base,'--','*.rs'],capture_output=True,text=True).stdout.split())
bad = 0
for f in sorted(files):
    if f not in doc: continue
    d = subprocess.run(['git','diff','-U0',base,'--',f],capture_output=True,text=True).stdout
    m = re.search(r'^@@ -(\d+)', d, re.M)
    if not m: continue
    first = int(m.group(1)); last = max(doc[f])
    if first < last:
        print(f"SHIFT-RISK {f} first_change={first} last_stable_doctest_line={last}"); bad = 1
print("doctest guard:", "RISK" if bad else "ok", f"({len(files)} changed files, {sum(1 for f in files if f in doc)} with stable doctests)")
sys.exit(bad)
PY
