#!/bin/bash
# Seed sweep: run the quick tier of the given properties under several VERIF_SEED values.
# usage: sweep.sh "<seeds>" "<properties>" [tier]
# Prints one line per (seed, property); non-zero exits are listed again at the end.
ROOT=$(cd "$(dirname "$0")/.." && pwd)
SEEDS=${1:-"1 2 3"}
PROPS=${2:-"C02 C09 C10 C11 C12 C13 C14 C15 C18 C19 C24"}
TIER=${3:-quick}
export VERIF_ROOT=${VERIF_ROOT:-$ROOT/sweep_out}
mkdir -p "$VERIF_ROOT/evidence" "$VERIF_ROOT/replays"
cp "$ROOT/known_findings.json" "$VERIF_ROOT/" 2>/dev/null
mkdir -p "$VERIF_ROOT/witnesses"; cp "$ROOT"/witnesses/* "$VERIF_ROOT/witnesses/" 2>/dev/null
bad=""
for s in $SEEDS; do
  for p in $PROPS; do
    out=$(VERIF_SEED=$s "$ROOT/check" $p --tier $TIER 2>&1)
    rc=$?
    echo "seed=$s $p rc=$rc $(echo "$out" | grep -E '^runs=' | tail -1)"
    if [ $rc -ne 0 ]; then
      bad="$bad seed=$s:$p"
      echo "$out" | grep -v WARNING | tail -15
    fi
  done
done
echo "FAILED:$bad"
