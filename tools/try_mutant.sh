#!/bin/bash
# usage: try_mutant.sh <patch.diff> <property> [more properties...]
# Applies a seeded change to /repo, runs the quick tier of the given checks, always reverts.
PATCH=$1; shift
cd /repo || exit 2
if [ -n "$(git status --porcelain -- crates src)" ]; then echo "repo not clean"; exit 2; fi
git apply "$PATCH" || { echo "patch does not apply"; exit 2; }
trap 'git -C /repo checkout -- . ' EXIT
mkdir -p /tmp/mutant_out && cp /verif/known_findings.json /tmp/mutant_out/ && cp -r /verif/witnesses /tmp/mutant_out/ 2>/dev/null
for p in "$@"; do
  out=$(VERIF_ROOT=/tmp/mutant_out /verif/check $p --tier quick 2>&1); rc=$?
  mkdir -p /tmp/mutant_out
  echo "== $p rc=$rc"
  echo "$out" | grep -v "WARNING\|KNOWN-FINDING" | grep -E "^violation|^minimised|detail:|^VIOLATION|^runs=|^cases=|^    " | cut -c1-300 | head -30
done
