#!/usr/bin/env python3
"""Regenerate the "fixed" entries of known_findings.json from the fix: commits of /repo.

Each fix: commit is attributed to the property whose check first reported the defect (table below,
keyed by a distinctive part of the commit subject, so the entry survives a rebase of /repo).
Open findings are left untouched. Run by hand after committing a fix; never run by a check."""
import json, subprocess, sys
PINNED = "258d8c92"
PROP = [  # (subject fragment, property, also)
 ("rebuild user-defined indexes after DELETE", "C15", "C02"),
 ("TRUNCATE TABLE clears user-defined index", "C15", "C02"),
 ("report an error on 64-bit overflow", "C24", ""),
 ("multi-row UPDATE rejects new row images", "C10", "C11"),
 ("DELETE without WHERE (truncate fast path)", "C15", "C02"),
 ("primary-key fast path falls back", "C09", ""),
 ("same non-boolean WHERE truth values", "C09", ""),
 ("composite PRIMARY KEY / UNIQUE / FOREIGN KEY keys in the declared column order", "C10", "C12"),
 ("ROLLBACK restores user-defined indexes", "C13", ""),
 ("ROLLBACK TO SAVEPOINT restores table contents", "C14", ""),
 ("multi-row INSERT rejects rows that collide", "C10", "C11"),
 ("CREATE UNIQUE INDEX is rejected when existing rows collide", "C10", "C33"),
 ("UPDATE checks user-defined UNIQUE indexes", "C10", ""),
 ("multi-row UPDATE of parent keys checks ON UPDATE", "C11", "C12"),
 ("INSERT VALUES evaluates constant expressions", "C19", ""),
 ("loading a binary database file fills user-defined indexes", "C18", ""),
 ("in-memory index range scans skip NULL keys", "C02", ""),
 ("index scan does not claim ORDER BY order", "C02", ""),
 ("uses an index only when the WHERE clause belongs to that table alone", "C02", "C05"),
 ("index IN-list lookups deduplicate", "C02", ""),
 ("prefix indexes are not used for WHERE lookups", "C02", ""),
 ("multi-column index range scans compare the first key column", "C02", ""),
 ("UPDATE validates constraints against the row as it will be stored", "C10", "C09"),
 ("columnar aggregate path is not taken for queries with HAVING", "C03", ""),
 ("columnar COUNT over an empty table is 0", "C03", ""),
 ("columnar filter predicates are never true for NULL", "C03", ""),
 ("on the columnar path COUNT(*) counts rows", "C03", ""),
 ("columnar SUM over a column that holds only NULLs", "C03", ""),
 ("bulk load uses the smallest key of a subtree", "C17", "C16"),
 ("bulk load never builds an internal node with a single child", "C17", "C16"),
 ("disk-backed index range scans compare the first key column", "C16", ""),
 ("maintenance of disk-backed indexes removes only the affected row id", "C16", ""),
 ("binary loader reads strings without pre-allocating", "C20", ""),
 ("on a table with triggers are atomic", "C34", "C11"),
 ("UPDATE OF <columns> triggers are found", "C34", ""),
 ("ON DELETE CASCADE over rows that reference each other in a cycle", "C12", "C24"),
 ("DELETE on a self-referencing table re-resolves", "C12", ""),
 ("on a table that foreign keys reference are atomic", "C11", "C12"),
 ("PRIMARY KEY duplicates are checked also while the table is in append mode", "C10", ""),
 ("ON DUPLICATE KEY UPDATE validates the updated row", "C10", "C15"),
 ("ALTER TABLE ADD CONSTRAINT (PRIMARY KEY, UNIQUE, CHECK) is rejected", "C10", "C33"),
 ("bulk transfer validates every row before inserting any", "C11", ""),
 ("REPLACE rebuilds user-defined indexes", "C15", "C02"),
 ("ON DUPLICATE KEY UPDATE or REPLACE is atomic", "C11", ""),
 ("bulk transfer checks unique indexes for all rows", "C11", "C10"),
 ("JSON persistence keeps NaN and infinite", "C18", ""),
 ("spilling an index to disk sizes B+ tree pages", "C16", ""),
 ("also update the catalog's copy of the table schema", "C33", ""),
 ("DROP COLUMN / CHANGE COLUMN keep dependent objects consistent", "C33", "C15"),
 ("Database::drop_table also drops the indexes recorded under", "C33", ""),
 ("RENAME TO moves the table's user-defined indexes", "C33", ""),
 ("INSERT coerces integer literals to SMALLINT", "C19", ""),
 ("INSERT accepts 'NaN', 'Infinity' and '-Infinity'", "C19", ""),
 ("SQL dump statement splitter follows the lexer's string rules", "C19", ""),
 ("SQL dumps write negative zero as -0.0", "C19", ""),
 ("load_sql_dump truncates a failing statement for its error message", "C20", ""),
 ("CHAR/VARCHAR values are truncated at a character boundary", "C20", "C24"),
 ("binary loader rejects a row count for a table without columns", "C20", ""),
 ("TIME/TIMESTAMP parsing rejects non-digit fractional seconds", "C24", "C20"),
 ("SUBSTRING counts characters instead of slicing bytes", "C24", ""),
 ("CAST(... AS VARCHAR(n)) truncates at a character boundary", "C24", ""),
 ("unary minus and ABS report an error for the most negative integer", "C24", ""),
 ("columnar SUM/AVG over integers accumulate exactly", "C24", "C03"),
 ("TRIM with an empty trim string returns its argument", "C24", ""),
 ("ON DUPLICATE KEY UPDATE col = col + n reports integer overflow", "C24", ""),
 ("DELETE fails when its WHERE clause is denied access", "C26", ""),
 ("bulk transfer checks the SELECT privilege on the source table", "C26", ""),
 ("text-based query signature keeps string literals as written", "C25", ""),
 ("frontend message decoding works on exactly the declared frame", "C27", ""),
 ("Python parameter binding ignores '?' inside string literals", "C30", ""),
 ("Python statement cache is keyed by the statement with its parameters bound", "C30", ""),
 ("Python bool parameters are bound as BOOLEAN", "C30", ""),
 ("Python float parameters keep the sign of negative zero", "C30", ""),
 ("on a table with INSERT triggers takes the normal path", "C34", ""),
 ("re-resolves the column positions of the table's remaining foreign keys", "C33", "C24"),
 ("rejected ALTER TABLE ADD CONSTRAINT FOREIGN KEY (cycle of foreign keys) leaves the table", "C33", ""),
 ("COUNT(*) fast path checks the SELECT privilege", "C26", ""),
 ("REPLACE is atomic also for a single row", "C11", ""),
 ("ON DUPLICATE KEY UPDATE enforces referential integrity like UPDATE", "C12", ""),
 ("re-checks a row's foreign keys when it is inserted", "C12", ""),
 ("deliver an ORDER BY that mixes ascending and descending columns", "C02", ""),
 ("select-list alias for another expression is not delivered from an index", "C02", ""),
 ("reach the user-defined indexes in the normalized form the table stores", "C15", "C02"),
 ("leaf is split when its entries no longer fit into one page", "C16", "C17"),
 ("leaves are not merged (and entries not borrowed) when the result would not fit", "C17", "C16"),
 ("DROP COLUMN is refused when the rest of a multi-column UNIQUE constraint", "C33", "C10"),
 ("index-backed IN (subquery) shortcut checks the SELECT privilege", "C26", ""),
 ("columnar MIN/MAX compares every comparable type", "C03", ""),
 ("columnar SUM/AVG accept REAL values", "C03", ""),
 ("SELECT *, COUNT(*) is left to row execution", "C03", ""),
 ("integer-literal predicate fast path compares DOUBLE/NUMERIC/FLOAT/REAL columns as f64", "C03", ""),
 ("row-path SUM/AVG accumulate FLOAT/REAL/DOUBLE values in f64", "C03", ""),
 ("ON UPDATE actions through several foreign keys of one child row are all applied", "C12", ""),
 ("rebuilding a disk-backed index sizes its pages from the stored keys and fills leaves by size", "C16", "C17"),
]
def main():
    root = sys.argv[1] if len(sys.argv) > 1 else "/verif"
    log = subprocess.check_output(["git", "-C", "/repo", "log", "--reverse", "--format=%h\t%s", PINNED + "..HEAD"], text=True)
    commits = [l.split("\t", 1) for l in log.splitlines() if "\t" in l]
    fixes = [(h, s) for h, s in commits if s.startswith("fix:")]
    path = root + "/known_findings.json"
    doc = json.load(open(path))
    open_entries = [f for f in doc["findings"] if f.get("status") != "fixed"]
    fixed, unmapped = [], []
    for h, s in fixes:
        m = [(p, a) for frag, p, a in PROP if frag in s]
        if len(m) != 1:
            unmapped.append((h, s)); continue
        p, also = m[0]
        what = s[len("fix:"):].strip()
        e = {"id": f"{p}-fixed-{h}", "property": p, "status": "fixed", "commit": h,
             "what": f"fixed: property={p} {h} {what}" + (f" (also affected {also})" if also else "")}
        fixed.append(e)
    if unmapped:
        for h, s in unmapped: print("UNMAPPED", h, s, file=sys.stderr)
        sys.exit(1)
    doc["findings"] = open_entries + fixed
    json.dump(doc, open(path, "w"), indent=1); open(path, "a").write("\n")
    print(f"{len(open_entries)} open, {len(fixed)} fixed entries")
main()
