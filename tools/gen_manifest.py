#!/usr/bin/env python3
"""Regenerates /verif/MANIFEST.json from the table below (kept in one place so that the manifest,
the check driver and DESIGN.md do not drift)."""
import json, subprocess, os

ROOT = os.path.dirname(os.path.dirname(os.path.abspath(__file__)))

NA = [
 ("C01", "pure function of (data, query); deciding it needs a second SQL engine as oracle = differential testing, not simulation; nothing to schedule or fault"),
 ("C06", "metamorphic relation between four queries on one fixed state; no history, fault, schedule or alternative path in the statement"),
 ("C07", "pure function of the aggregated multiset (its two-execution-path clause is decided under C03)"),
 ("C08", "pure function of the result (its index-order clause is decided under C02, parallel sort under C04)"),
 ("C21", "algebraic laws over single values; no state, I/O, time or second party"),
 ("C22", "parse/format of single values; no state, I/O, time or second party"),
 ("C23", "parser totality over single strings; no state, I/O, time or second party"),
 ("C28", "pure function of the message value: BackendMessage::encode has no state, stream position, schedule or fault in it, and the statement quantifies over message contents only; the session that would give it a history (Connection) is welded to tokio::net::TcpStream and cannot run inside a simulator here (no turmoil/madsim, real sockets are not allowed)"),
 ("C29", "pure function of (user, stored secret, salt, response): PasswordStore verification has no history, schedule or fault in it; the handshake that draws the salt lives in Connection, which is welded to tokio::net::TcpStream and cannot run inside a simulator here"),
 ("C31", "single-process CLI file export/import quantified over inputs only; nothing to schedule or fault"),
]

# id -> (engine, level, technique, text, note, design_ref)
CHECKS = {
 "C02": ("dbsim", "exploration", "deterministic simulation: seeded histories on twin databases (with / without user indexes), probe equality after every step",
         "Seeded search over DML/DDL histories and probe queries; twin instances differ only in the existence of user-defined indexes; any difference in base tables or in a probe result (multiset; sequence under total ORDER BY) is a violation, minimised and replayable.",
         "Sampling, not proof. Probe SQL subset as listed in the evidence. Known finding C02-index-f64-precision keeps integers beyond +-2^53 out of this check's workload.", "6/C02"),
 "C03": ("dbsim", "exploration", "deterministic simulation with buggify twins: every probe executed with the columnar gate open and forced shut (guarded hook) on states reached by seeded histories",
         "Same state, two execution paths: each generated single-table aggregate probe (COUNT/SUM/AVG/MIN/MAX over integer, string, DOUBLE PRECISION, NUMERIC, REAL, DATE and BOOLEAN columns; one run in six bulk-loads a typed table of 1000-3072 rows whose id ranges select exact multiples of the SIMD batch size) runs with the columnar gate open and with it forced shut; rows must be equal (numerics by value); on the gated path COUNT is never NULL and exactly one row is returned. The hook's hit counter in the evidence shows how often the gated path was really consulted.",
         "Sampling. Known finding C03-columnar-f64-sum keeps integers beyond +-2^53 out of this workload; known finding C03-columnar-filter-epsilon keeps float values within 1e-9 of a compared literal out of it. Float values and all their partial sums are exact in f64 (the order of summation is not part of the property). HAVING/ORDER BY/LIMIT/OFFSET probes exercise the gate's refusal, not the columnar kernels.", "6/C03"),
 "C04": ("dbsim", "exploration", "deterministic simulation: the executor's rayon operators run on a seeded single-thread scheduler stand-in; thresholds switched per run (guarded hook); same probe under never/always-parallel x schedules",
         "Each probe is executed under never-parallel and four always/threshold-7 parallel configurations, each with its own seeded schedule (execution order of map/filter items, chunk order, split tree of the stable merge sort); all must agree (multiset; sequence under total ORDER BY). Bulk-loaded runs push the chunked hash-join build over several chunks.",
         "The stand-in checks schedule-independence of results, not memory safety of real threads (the parallel closures contain no unsafe code).", "6/C04"),
 "C05": ("dbsim", "exploration", "deterministic simulation with buggify twins: every probe family executed with all optimisations, with none (definitional nested evaluation) and with a seeded partial subset, in several equivalent renderings",
         "Same state, different optimizer decisions: join reordering, hash vs nested-loop join, IN/EXISTS rewrites, semi/anti-join transform, index-backed IN and index scans are switched per execution through guarded hooks; semi/anti/inner-join intents are additionally rendered as IN / EXISTS / NOT IN / NOT EXISTS, permuted comma joins, INNER JOIN, derived tables. All executions of a family must agree.",
         "Sampling. The cross-rendering half is metamorphic generation. Known finding C05-not-exists-rewrite restricts anti-join families to NOT NULL keys.", "6/C05"),
 "C09": ("dbsim", "exploration", "deterministic simulation: seeded DML histories; per-step oracle = SUT's own SELECT reading of the predicate on the pre-state",
         "For every UPDATE/DELETE of a seeded history the affected-row set and new images are read with one SELECT on the pre-state; count and post-state must match exactly; INSERT must add exactly the given rows.",
         "Sampling. Index-driven SELECT paths are excluded here (C02 decides them).", "6/C09"),
 "C10": ("dbsim", "exploration", "deterministic simulation: seeded histories with constraint-violating faults; invariant monitor after every step",
         "After every statement (success or failure) of seeded histories the declared PRIMARY KEY / UNIQUE / UNIQUE INDEX / NOT NULL / CHECK constraints are re-evaluated by the harness on the stored rows.",
         "Sampling. CHECK constraints limited to integer comparisons.", "6/C10"),
 "C11": ("dbsim", "fault_enumeration", "deterministic simulation with fault injection inside statements: failing row at a seeded position of multi-row DML, 7 fault classes",
         "Faults (duplicate key vs table / inside batch, NULL in NOT NULL, CHECK false, type error, arity, missing column, FK orphan) are placed at seeded row positions of multi-row statements; an erroring statement must leave the complete observable snapshot unchanged, a successful INSERT must add all rows.",
         "Positions and classes are sampled per run, not a complete cross product for every pre-state. Trigger-failure class is covered under C34.", "6/C11"),
 "C12": ("dbsim", "exploration", "deterministic simulation: seeded parent/child histories; no-orphan invariant + executable model of ON DELETE/UPDATE actions",
         "Parent/child/grandchild schemas with seeded referential actions; after every step no child row may be orphaned and an accepted UPDATE/DELETE must leave exactly the state the action model computes from the rows the SUT's SELECT reports as affected; statements the model says must be rejected must fail.",
         "Sampling. Single-column FKs onto INTEGER primary keys; model abstains on self-referencing restrict / key updates of self-referencing tables / assignment of an unchanged key.", "6/C12"),
 "C13": ("dbsim", "exploration", "deterministic simulation: abort (ROLLBACK) injected at seeded points of DML+DDL transactions; snapshot oracle",
         "Complete observable snapshot (tables, catalog listings, index-driven reads) before BEGIN vs after ROLLBACK, and before vs after COMMIT.",
         "Sampling.", "6/C13"),
 "C14": ("dbsim", "exploration", "deterministic simulation: seeded interleavings of DML and SAVEPOINT/RELEASE/ROLLBACK TO; savepoint-stack reference model",
         "Model = stack of (name, table contents at creation). After ROLLBACK TO s tables equal the snapshot, s stays usable, later savepoints are gone; RELEASE changes no data; use of a destroyed name must fail.",
         "Sampling, histories <= 48 steps. After RELEASE s the fate of savepoints established after s is not asserted.", "6/C14"),
 "C15": ("dbsim", "exploration", "deterministic simulation: invariant monitor comparing incremental index state with a rebuild after every step",
         "After every step: primary-key and unique hash indexes equal those of a clone after rebuild_indexes(); every user index equals the same definition created from scratch on a clone.",
         "Sampling. Observation through public accessors only.", "6/C15"),
 "C16": ("dbsim", "exploration", "deterministic simulation: seeded histories on three twin databases whose indexes live in memory / are spilled by a tiny memory budget / are disk-backed from creation, index files on a simulated disk behind the real StorageBackend trait",
         "Same history, three index storage configurations; base tables, accept/reject decisions and every probe (multiset; sequence under total ORDER BY) must agree after each step. The evidence counts how many indexes really became disk-backed in each twin.",
         "Sampling. No I/O faults are injected into the index files (the listed properties are silent about them); transactions are not part of this workload.", "6/C16"),
 "C17": ("dbsim", "exploration", "deterministic simulation of the real BTreeIndex + PageManager over a simulated disk: seeded operation sequences in ramp-up/drain phases vs a BTreeMap reference model, independent structure check of the persisted bytes after every mutation",
         "Every answer (lookup, multi_lookup, range_scan with all bound combinations, delete / delete_specific results) is compared with an ordered-multimap model; after every mutation an independent parser walks the pages read back from the simulated disk: sorted keys, separator invariants, uniform leaf depth, complete leaf chain, no page reachable twice, leaf entries = model. BTreeIndex::load on the same pages must answer like the live object.",
         "Sampling (<= 400 operations per run, degrees 5..215, heights 1..5 reached). At most 40 row ids per key. Re-opening the page file is not exercised.", "6/C17"),
 "C18": ("dbsim", "exploration", "deterministic simulation: restart (save -> drop -> load) injected at seeded points; restarted twin vs reference twin",
         "Restart in binary / compressed / JSON format is one more generated operation; tables, columns, rows (bit-exact), index list and all probes must agree between the restarted and the reference twin, immediately and as the history continues.",
         "Sampling. INTEGER/VARCHAR columns in this scenario. Constraints are not among the things the statement promises, so accept/reject differences after a reload end the run without alarm.", "6/C18"),
 "C19": ("dbsim", "exploration", "deterministic simulation: restart through SQL dump at seeded points; reloaded twin vs reference twin",
         "save_sql_dump -> load_sql_dump as a generated operation inside histories; tables, columns (name, type) and row multisets must agree.",
         "Sampling. The input-sweep half of the property (all strings / special floats) is generation rather than simulation and is only partly covered (adversarial string pool).", "6/C19"),
 "C20": ("filesim", "fault_enumeration", "deterministic fault injection over stored images: truncation at every offset, bit flips, boundary-value overwrites, block zero/dup/swap, garbage, arbitrary bytes; loaders run in worker subprocesses under catch_unwind, an allocation-limiting GlobalAlloc and a hang watchdog",
         "Valid images in all four formats come from seeded histories on the real engine; every damaged image is handed to every applicable loader (path-based API, auto-detection with and without extension, and the Read-generic binary codec over a reader with short reads and EINTR). Oracle: Ok or Err only - no panic, abort, hang (10 s) or single allocation above 64 MiB + 64 x file length.",
         "Truncation is exhaustive for images <= 8 KiB (all of them in practice); the other fault kinds are sampled. Decompression bombs are not constructed deliberately.", "6/C20"),
 "C24": ("dbsim", "exploration", "deterministic simulation: every statement of seeded histories (incl. faulty and extreme-valued ones) under catch_unwind",
         "Panic and hang monitor over all statements of the general history and of a hostile-statement generator (extreme integer literals and arithmetic, multi-byte strings at every slicing function, malformed temporal literals); harness build has overflow checks on, so unchecked arithmetic panics instead of wrapping. Aggregates: a bulk table of ~2^52 values (SIMD batches whose sum leaves the 64-bit range) and a table of 2-9 integers around i64::MAX/n, whose SUM must equal the sum the harness computes in 128 bits or be NULL/an error when that does not fit.",
         "Stateful reading only; the space of all statements is not enumerated. Known finding C03-columnar-f64-sum: with its guard a fitting sum handed out as the correctly rounded Double is accepted (nothing else is).", "6/C24"),
 "C25": ("dbsim", "exploration", "deterministic simulation: seeded interleavings of writes and cached reads through the real signature/cache/table-extractor; every cache hit compared with direct execution",
         "The real QuerySignature::from_sql, QueryResultCache and extract_tables_from_select are driven with the lookup/store/invalidate protocol of the repository's sqllogictest adapter over seeded histories; query texts vary literal case and inner white space (also as near-duplicates of an earlier text in which one literal is replaced by such a variant), carry several literals (some ending in a backslash or containing quotes), vary identifier case and layout, and reach tables through joins, subqueries, derived tables, CTEs, UNION, HAVING subqueries (and a view when the known finding's guard is off); each hit must equal what executing the text now returns.",
         "Sampling. The protocol glue re-states a test-support file. Known finding C25-view-dependencies keeps views out of this workload.", "6/C25"),
 "C26": ("dbsim", "exploration", "deterministic simulation: seeded GRANT/REVOKE/SET ROLE histories with security enabled; model of held privileges; every statement shape that touches a table executed under non-admin roles",
         "Model = set of (role, table, privilege) implied by accepted GRANT/REVOKE. 26 statement shapes (scans, index scans, aggregates, joins, IN/NOT IN/EXISTS/scalar subqueries, derived tables, CTEs, UNION, a view, INSERT VALUES, INSERT..SELECT on both paths, UPDATE/DELETE with subqueries) run under the current role; a statement lacking a needed privilege must fail and leave both tables unchanged.",
         "Sampling; one-sided as the property is stated (a refusal despite held privileges is counted, not reported). No PUBLIC grants, role membership or grant options.", "6/C26"),
 "C27": ("netsim", "exploration", "deterministic simulation of the client byte stream: seeded frame sequences (well-formed and malformed) delivered in seeded fragments into the server's real decoder through the receive loop of connection.rs",
         "The server's protocol module is compiled into the harness by path. Oracles per decoder call: no panic; well-formed frames decode to the message sent under every fragmentation; exactly the frame is consumed and following bytes stay untouched; startup packets also carry the protocol's reserved request codes (CancelRequest, SSLRequest, GSSENCRequest) at every declared length from 8 to 24; a malformed frame with a usable length is never answered by consuming bytes beyond it; a completely delivered well-formed frame is never left waiting.",
         "Sampling. Transport and receive loop are re-stated (Connection is welded to tokio::net::TcpStream); asking for more bytes on a negative/oversized length is accepted as the statement allows it.", "6/C27"),
 "C30": ("pysim", "exploration", "deterministic simulation of DB-API call histories: seeded sequences of cursor.execute(sql, params) on the compiled extension module against a twin connection that executes harness-bound literal statements",
         "Each run is a seeded history of execute calls (two cursors, texts re-used with other tuples, '?' inside literals, hostile strings, boundary numbers, bool/None, arity faults) on connection A; connection B receives the same statement with every placeholder outside string literals replaced by a literal written by the harness. After every call: same outcome class, same fetched rows, same table contents, and bound values of a full-row INSERT read back equal with their Python type.",
         "Sampling. Special floats (NaN, infinities) are not bound (no literal to compare with). Single interpreter thread.", "6/C30"),
 "C32": ("dbsim", "exploration", "deterministic simulation: views created inside seeded histories and kept while data changes; every outer query executed over the view, over the inlined derived table and over a CTE",
         "After every step each view is queried through seeded outer queries (projection, pushed-down filters, aggregates, GROUP BY, DISTINCT, join with a base table) in three renderings - FROM view, FROM (defining query) AS v, WITH w AS (defining query) - which must agree bit-exactly; equality after each later write is what 'a view reflects the current contents' means here.",
         "Sampling. Views expose two columns; definitions cover filtered projection, explicit column list, expression column, GROUP BY, two-table join, view over view, DISTINCT.", "6/C32"),
 "C33": ("dbsim", "exploration", "deterministic simulation: seeded DDL/DML histories over a small pool of names in random identifier case; registry cross-checks, rebuild comparison and with/without-index probes after every step",
         "Every step of a seeded history of CREATE/DROP TABLE, CREATE/DROP INDEX, ALTER TABLE (ADD/DROP/CHANGE COLUMN, RENAME TO, ADD/DROP CONSTRAINT) and DML is followed by: catalog listing = storage listing = objects implied by the accepted statements; declared = stored columns and row arity; every listed table answers SELECT *; both index registries name only existing tables and columns; every user index holds what the same CREATE INDEX builds from the current rows; constraint hash indexes equal their rebuild; retained columns keep their data across ALTER; index-driven probes equal the same probes with index scans switched off.",
         "Sampling. Column rename only through CHANGE COLUMN (RENAME COLUMN is not in the grammar). Views/triggers as dependent objects of DDL are not part of this workload.", "6/C33"),
 "C34": ("dbsim", "exploration", "deterministic simulation: seeded trigger sets (incl. failing bodies as injected faults) and DML histories; executable model of expected firings",
         "Audit rows written by trigger bodies are compared, after every statement, with the firings the model derives from the rows the SUT's own SELECT reports as affected (once per row with OLD/NEW images, once per statement, WHEN and UPDATE OF gating); a trigger whose body fails must make the statement fail and leave target and audit tables unchanged.",
         "Sampling. Triggers are created through CreateTriggerStmt values (the SQL text path cannot store an executable body). WHEN conditions and UPDATE OF lists are restricted to the unambiguous cases listed in the evidence.", "6/C34"),
}

def main():
    commits = subprocess.run(["git", "-C", "/repo", "log", "--format=%h %s", "258d8c92..HEAD"], capture_output=True, text=True).stdout.strip().split("\n")
    hook_commits = [c for c in commits if c and not c.split(" ", 1)[1].startswith("fix:")]
    checks = []
    for pid in sorted(CHECKS):
        eng, level, tech, text, note, ref = CHECKS[pid]
        checks.append({
            "property_id": pid,
            "quick_cmd": f"./check {pid} --tier quick",
            "thorough_cmd": f"./check {pid} --tier thorough",
            "evidence_file": f"/verif/evidence/{pid}.json",
            "replay_cmd_template": f"./check {pid} --replay {{path}}",
            "engine": eng,
            "level_claimed": {"category": level, "text": text, "design_ref": f"DESIGN.md section {ref}"},
            "level_note": note,
            "technique": tech,
        })
    claimed = set(CHECKS)
    na = [{"property_id": p, "reason": r} for p, r in NA]
    pending = [f"C{n:02d}" for n in range(1, 35) if f"C{n:02d}" not in claimed and f"C{n:02d}" not in {p for p, _ in NA}]
    for p in pending:
        na.append({"property_id": p, "reason": "not claimed yet: the engine for this property is still being built (see DESIGN.md section 11); no check is registered, so nothing is asserted about it"})
    na.sort(key=lambda x: x["property_id"])
    m = {
        "version": 1,
        "setup_cmd": "cd /verif && ./check build",
        "hooks": {
            "guard": "--cfg vibesql_verif",
            "enable": "RUSTFLAGS '--cfg vibesql_verif' set by /verif/sim/.cargo/config.toml; the harness workspace path-depends on the crates under /repo/crates, so every check rebuilds from /repo's working tree",
            "baseline_off_cmd": "/verif/tools/baseline.sh /repo",
            "source_commits": hook_commits,
            "add_only": True,
        },
        "engines": [
            {"name": "filesim", "path": "/verif/sim/filesim", "serves_properties": ["C20"],
             "kind_free_text": "fault injector over persisted database images with subprocess workers (panic/abort/hang/allocation attribution), images generated by the dbsim history generator"},
            {"name": "pysim", "path": "/verif/sim/pysim", "serves_properties": ["C30"],
             "kind_free_text": "seeded DB-API call-history driver in CPython over the compiled vibesql extension module (built from /repo), twin connection as reference"},
            {"name": "netsim", "path": "/verif/sim/netsim", "serves_properties": ["C27"],
             "kind_free_text": "simulated byte-stream transport (seeded fragmentation) feeding the server's real frontend-message decoder, with an independent encoder as client"},
            {"name": "dbsim", "path": "/verif/sim/dbsim", "serves_properties": sorted(p for p in CHECKS if CHECKS[p][0] == "dbsim"),
             "kind_free_text": "single-process deterministic simulator over the real parser/catalog/storage/executor: seeded swarm configuration, seeded operation histories with faults inside statements, aborts and restarts; twin instances; per-step oracles; ddmin minimisation; explicit replay files"},
        ],
        "checks": checks,
        "not_applicable": na,
        "notes": "exit 0 = held (KNOWN-FINDING lines possible), 1 = VIOLATION line, 2 = harness error. known_findings.json lists open findings (witness + generator guard) and fixed ones (fix: commits in /repo).",
    }
    json.dump(m, open(os.path.join(ROOT, "MANIFEST.json"), "w"), indent=1)
    print("wrote MANIFEST.json with", len(checks), "checks,", len(na), "not_applicable entries")

main()
