//! netsim — C27: wire-protocol decoding under a simulated byte-stream transport.
//!
//! The server's protocol module (a binary crate's private module) is compiled into this harness by
//! path, unchanged. A simulated client writes a seeded sequence of frames — well-formed messages built
//! by an independent encoder, and malformed frames (negative / short / oversized length fields, missing
//! terminators, bad type bytes, bad UTF-8, truncated startup packets) — and the simulated transport
//! delivers the byte stream in seeded fragments (one byte at a time .. everything at once). The receive
//! loop is the one of connection.rs: append what arrived, decode until the decoder asks for more.
//!
//! Oracles: no panic; the messages decoded from the well-formed prefix equal the messages sent, for
//! every fragmentation; after each decoded message exactly that frame has been consumed (following
//! bytes untouched); a malformed frame whose declared length is available is never answered by
//! consuming bytes beyond it; once the whole stream of well-formed frames has been delivered every
//! message has been decoded (nothing left waiting).

#[path = "/repo/crates/vibesql-server/src/protocol/mod.rs"]
#[allow(dead_code, unused_imports)]
mod protocol;

use bytes::BytesMut;
use protocol::FrontendMessage;
use serde::{Deserialize, Serialize};
use serde_json::json;
use simcore::evidence::{self, EvidenceMeta};
use simcore::runner::{catch, run_batch, BatchCfg, RunReport, Violation};
use simcore::{Fnv, Rng};
use std::time::Duration;

#[derive(Clone, Debug, PartialEq, Serialize, Deserialize)]
enum Msg {
    Query(String),
    Password(String),
    Terminate,
    Startup(i32, Vec<(String, String)>),
    SslRequest,
}

/// One frame on the wire: its bytes, the message it must decode to (None = malformed) and, for
/// malformed frames, whether the declared frame end is meaningful (length field >= 4 resp. 8).
#[derive(Clone, Debug, Serialize, Deserialize)]
struct Frame {
    bytes: Vec<u8>,
    msg: Option<Msg>,
    kind: String,
    /// declared frame size in bytes (type byte included), if the length field is sane
    declared: Option<usize>,
}

#[derive(Clone, Debug, Serialize, Deserialize)]
struct Case {
    startup: bool,
    frames: Vec<Frame>,
    /// fragment sizes used by the transport (cycled)
    fragments: Vec<usize>,
}

fn cstr(v: &mut Vec<u8>, s: &str) {
    v.extend_from_slice(s.as_bytes());
    v.push(0);
}

fn encode(m: &Msg) -> Vec<u8> {
    let mut body = Vec::new();
    let ty = match m {
        Msg::Query(q) => {
            cstr(&mut body, q);
            Some(b'Q')
        }
        Msg::Password(p) => {
            cstr(&mut body, p);
            Some(b'p')
        }
        Msg::Terminate => Some(b'X'),
        Msg::Startup(v, params) => {
            body.extend_from_slice(&v.to_be_bytes());
            for (k, val) in params {
                cstr(&mut body, k);
                cstr(&mut body, val);
            }
            body.push(0);
            None
        }
        Msg::SslRequest => {
            body.extend_from_slice(&80877103i32.to_be_bytes());
            None
        }
    };
    let mut out = Vec::new();
    if let Some(t) = ty {
        out.push(t);
    }
    out.extend_from_slice(&((body.len() + 4) as i32).to_be_bytes());
    out.extend_from_slice(&body);
    out
}

fn gen_string(rng: &mut Rng) -> String {
    let n = match rng.below(8) {
        0 => 0,
        1 => 1,
        2 => 200 + rng.usize(3000),
        _ => rng.usize(40),
    };
    let alphabet = ["a", "Z", " ", "'", "é", "€", "😀", ";", "\n", "\\", "0", "SELECT ", "\u{1}"];
    let mut s = String::new();
    while s.len() < n {
        let piece: &str = *rng.pick(&alphabet);
        s.push_str(piece);
    }
    s
}

fn gen_msg(rng: &mut Rng, startup: bool) -> Msg {
    if startup {
        if rng.chance(1, 5) {
            return Msg::SslRequest;
        }
        let n = rng.usize(4);
        let mut params = Vec::new();
        for i in 0..n {
            // keys are non-empty (an empty key is the terminator) and unique
            params.push((format!("{}{}", rng.pick(&["user", "database", "k", "é"]), i), gen_string(rng)));
        }
        return Msg::Startup(*rng.pick(&[196608, 0, -1, 196609]), params);
    }
    match rng.below(6) {
        0 => Msg::Terminate,
        1 | 2 => Msg::Password(gen_string(rng)),
        _ => Msg::Query(gen_string(rng)),
    }
}

fn gen_malformed(rng: &mut Rng, startup: bool) -> Frame {
    let good = encode(&gen_msg(rng, startup));
    let off = if startup { 0 } else { 1 };
    let mut b = good.clone();
    let set_len = |b: &mut Vec<u8>, l: i32| b[off..off + 4].copy_from_slice(&l.to_be_bytes());
    let min = if startup { 8 } else { 4 };
    let (kind, declared): (&str, Option<usize>) = match rng.below(10) {
        9 if startup => {
            // one of the protocol's reserved request codes (CancelRequest, SSLRequest, GSSENCRequest) in a
            // packet of any declared length from the bare code up to a few bytes beyond its regular size
            let code: i32 = *rng.pick(&[80877102, 80877103, 80877104]);
            let l = 8 + rng.usize(17);
            b = Vec::new();
            b.extend_from_slice(&(l as i32).to_be_bytes());
            b.extend_from_slice(&code.to_be_bytes());
            while b.len() < l {
                b.push(if rng.chance(1, 4) { 0 } else { rng.below(256) as u8 });
            }
            ("reserved_request_code", Some(l))
        }
        0 => {
            set_len(&mut b, -1 - rng.range(0, 1000) as i32);
            ("negative_length", None)
        }
        1 => {
            let l = rng.range(0, min as i64 - 1) as i32;
            set_len(&mut b, l);
            // the declared frame ends after l bytes: yielding a message from it must not consume more
            ("length_below_minimum", Some(off + l as usize))
        }
        2 if b.len() > off + min + 1 => {
            // declared end before the terminator: the terminator lies beyond the frame
            let l = min as i64 + rng.range(0, (b.len() - off - min - 1) as i64 - 0);
            set_len(&mut b, l as i32);
            ("length_shorter_than_body", Some(off + l as usize))
        }
        3 => {
            let extra = 1 + rng.usize(50);
            let l = (b.len() - off + extra) as i32;
            set_len(&mut b, l);
            // the transport delivers the announced bytes (garbage), so the frame is complete
            for _ in 0..extra {
                b.push(if rng.chance(1, 3) { 0 } else { rng.below(256) as u8 });
            }
            ("length_longer_than_body", Some(off + l as usize))
        }
        4 if !startup && b.len() > 6 => {
            // no terminator inside the frame
            for x in b[5..].iter_mut() {
                if *x == 0 {
                    *x = b'x';
                }
            }
            let d = b.len();
            ("missing_terminator", Some(d))
        }
        5 if !startup => {
            b[0] = *rng.pick(&[0u8, b'q', b'Z', 0xff, b'S', b'B']);
            let d = b.len();
            ("invalid_type", Some(d))
        }
        6 if b.len() > off + 6 => {
            let p = off + 4 + rng.usize(b.len() - off - 5);
            b[p] = 0xff;
            let d = b.len();
            ("invalid_utf8", Some(d))
        }
        7 if startup => {
            // parameter list without the final terminator / key without value
            b.pop();
            let l = (b.len()) as i32;
            set_len(&mut b, l);
            let d = b.len();
            ("startup_unterminated", Some(d))
        }
        _ => {
            set_len(&mut b, i32::MAX - rng.range(0, 10) as i32);
            ("oversized_length", None)
        }
    };
    Frame { bytes: b, msg: None, kind: kind.to_string(), declared }
}

fn gen_case(seed: u64) -> Case {
    let mut rng = Rng::fork(seed, 4);
    let startup = rng.chance(1, 3);
    let n = if startup { 1 } else { 1 + rng.usize(6) };
    let mut frames = Vec::new();
    let malformed_at = if rng.chance(1, 2) { Some(rng.usize(n + 1)) } else { None };
    for i in 0..n {
        if Some(i) == malformed_at {
            frames.push(gen_malformed(&mut rng, startup));
            // bytes of a following well-formed frame: must stay untouched
            let m = gen_msg(&mut rng, false);
            frames.push(Frame { bytes: encode(&m), msg: Some(m), kind: "after_malformed".into(), declared: None });
            break;
        }
        let m = gen_msg(&mut rng, startup);
        let bytes = encode(&m);
        let d = bytes.len();
        frames.push(Frame { bytes, msg: Some(m), kind: "well_formed".into(), declared: Some(d) });
    }
    let fragments = match rng.below(5) {
        0 => vec![1],
        1 => vec![usize::MAX],
        2 => vec![1 + rng.usize(7)],
        3 => (0..8).map(|_| 1 + rng.usize(40)).collect(),
        _ => (0..8).map(|_| 1 + rng.usize(4000)).collect(),
    };
    Case { startup, frames, fragments }
}

fn to_msg(m: FrontendMessage) -> Msg {
    match m {
        FrontendMessage::Query { query } => Msg::Query(query),
        FrontendMessage::Password { password } => Msg::Password(password),
        FrontendMessage::Terminate => Msg::Terminate,
        FrontendMessage::SSLRequest => Msg::SslRequest,
        FrontendMessage::Startup { protocol_version, params } => {
            let mut p: Vec<(String, String)> = params.into_iter().collect();
            p.sort();
            Msg::Startup(protocol_version, p)
        }
    }
}

fn norm(m: &Msg) -> Msg {
    match m {
        Msg::Startup(v, p) => {
            let mut p = p.clone();
            p.sort();
            Msg::Startup(*v, p)
        }
        x => x.clone(),
    }
}

/// Execute one case; Some(violation) on the first oracle failure.
fn run_case(case: &Case, rep: &mut RunReport, log: &mut Fnv) -> Option<(String, String)> {
    let stream: Vec<u8> = case.frames.iter().flat_map(|f| f.bytes.iter().copied()).collect();
    // frame boundaries in the stream
    let mut ends = Vec::new();
    let mut acc = 0usize;
    for f in &case.frames {
        acc += f.bytes.len();
        ends.push(acc);
    }
    let well_formed_prefix = case.frames.iter().take_while(|f| f.kind == "well_formed").count();
    let mut buf = BytesMut::new();
    let mut delivered = 0usize;
    let mut consumed = 0usize;
    let mut decoded = 0usize; // number of frames handled so far
    let mut fi = 0usize;
    let mut closed = false;
    while delivered < stream.len() && !closed {
        let want = case.fragments[fi % case.fragments.len()];
        fi += 1;
        let n = want.min(stream.len() - delivered);
        buf.extend_from_slice(&stream[delivered..delivered + n]);
        delivered += n;
        rep.steps += 1;
        rep.count("fault.fragment_delivered");
        loop {
            let before = buf.len();
            let use_startup = case.startup && decoded == 0;
            let r = catch(|| if use_startup { FrontendMessage::decode_startup(&mut buf) } else { FrontendMessage::decode(&mut buf) });
            let used = before.saturating_sub(buf.len());
            consumed += used;
            rep.evaluations += 1;
            let frame = case.frames.get(decoded);
            let frame_end = ends.get(decoded).copied().unwrap_or(stream.len());
            let frame_start = frame_end - frame.map(|f| f.bytes.len()).unwrap_or(0);
            match r {
                Err(p) => return Some(("c27.panic".into(), format!("decoder panicked on frame {} ({}): {}", decoded, frame.map(|f| f.kind.as_str()).unwrap_or("?"), p))),
                Ok(Ok(None)) => {
                    log.str("more");
                    if used != 0 {
                        return Some(("c27.consumes_while_waiting".into(), format!("decoder asked for more bytes but consumed {} bytes of frame {}", used, decoded)));
                    }
                    // a complete well-formed frame is waiting: the decoder must not ask for more
                    if let Some(f) = frame {
                        if f.kind == "well_formed" && delivered >= frame_end {
                            return Some(("c27.stuck".into(), format!("frame {} ({:?}) is completely delivered ({} bytes buffered) but the decoder asks for more", decoded, f.msg, before)));
                        }
                    }
                    break;
                }
                Ok(Ok(Some(m))) => {
                    let got = to_msg(m);
                    log.str("msg");
                    match frame {
                        Some(f) if f.kind == "well_formed" || f.kind == "after_malformed" => {
                            let want = norm(f.msg.as_ref().unwrap());
                            if decoded < well_formed_prefix || f.kind == "after_malformed" && consumed - used == frame_start {
                                if got != want {
                                    return Some(("c27.roundtrip".into(), format!("frame {} sent {:?} decoded {:?}", decoded, want, got)));
                                }
                                if consumed != frame_end {
                                    return Some(("c27.framing".into(), format!("after decoding frame {} the decoder has consumed {} bytes, the frame ends at {}", decoded, consumed, frame_end)));
                                }
                            }
                            rep.count("reach.decoded_well_formed");
                        }
                        Some(f) => {
                            rep.count(&format!("reach.malformed_yielded_message.{}", f.kind));
                            if let Some(d) = f.declared {
                                if consumed > frame_start + d {
                                    return Some(("c27.framing".into(), format!("malformed frame {} ({}) declares {} bytes but decoding it consumed {} (message {:?})", decoded, f.kind, d, consumed - frame_start, got)));
                                }
                                // a message was taken from this frame: the whole declared frame belongs to it,
                                // its remainder must not be decoded as another frame
                                if f.kind != "length_below_minimum" && consumed != frame_start + d {
                                    return Some(("c27.framing".into(), format!("malformed frame {} ({}) declares {} bytes; the decoder yielded {:?} after consuming only {} of them, so the rest is read as a new frame", decoded, f.kind, d, got, consumed - frame_start)));
                                }
                            } else if consumed > frame_end {
                                return Some(("c27.framing".into(), format!("malformed frame {} ({}) of {} bytes: decoding consumed {} bytes, reaching into the following frame (message {:?})", decoded, f.kind, f.bytes.len(), consumed - frame_start, got)));
                            }
                        }
                        None => {}
                    }
                    decoded += 1;
                }
                Ok(Err(e)) => {
                    log.str("err");
                    rep.count("reach.decoder_error");
                    if let Some(f) = frame {
                        if f.kind == "well_formed" && decoded < well_formed_prefix {
                            return Some(("c27.roundtrip".into(), format!("well-formed frame {} ({:?}) rejected: {}", decoded, f.msg, e)));
                        }
                        rep.count(&format!("fault.malformed.{}", f.kind));
                        let limit = f.declared.map(|d| frame_start + d).unwrap_or(frame_end).max(frame_start);
                        if consumed > limit.max(frame_end.min(limit)) && f.declared.is_some() {
                            return Some(("c27.framing".into(), format!("malformed frame {} ({}) declares {} bytes; the decoder reported `{}` after consuming {} bytes", decoded, f.kind, f.declared.unwrap(), e, consumed - frame_start)));
                        }
                    }
                    closed = true; // the server closes the connection on a protocol error
                    break;
                }
            }
            if buf.is_empty() {
                break;
            }
        }
    }
    // liveness: everything delivered, all frames of a fully well-formed stream decoded
    if !closed && well_formed_prefix == case.frames.len() && decoded != case.frames.len() {
        return Some(("c27.stuck".into(), format!("{} of {} well-formed frames decoded after the whole stream was delivered", decoded, case.frames.len())));
    }
    if decoded > 0 {
        rep.nontrivial = true;
    }
    None
}

fn run(seed: u64) -> RunReport {
    let case = gen_case(seed);
    let mut rep = RunReport::default();
    let mut log = Fnv::new();
    let mut sig = Fnv::new();
    sig.u64(case.startup as u64);
    for f in &case.frames {
        sig.str(&f.kind);
        rep.count(&format!("op.frame.{}", f.kind));
    }
    sig.u64(case.fragments.len() as u64).u64(case.fragments[0].min(5000) as u64 / 8);
    // metamorphic: the same stream under a second fragmentation must decode identically
    let v = run_case(&case, &mut rep, &mut log).or_else(|| {
        let mut other = case.clone();
        other.fragments = vec![usize::MAX];
        let mut log2 = Fnv::new();
        run_case(&other, &mut rep, &mut log2)
    });
    rep.signature = sig.get();
    rep.log_digest = log.get();
    rep.sample = Some(json!({
        "phase": if case.startup { "startup" } else { "regular" },
        "frames": case.frames.iter().map(|f| json!({"kind": f.kind, "bytes": f.bytes.len(), "message": f.msg.as_ref().map(|m| format!("{:?}", m).chars().take(60).collect::<String>())})).collect::<Vec<_>>(),
        "fragment_sizes": case.fragments.iter().map(|f| (*f).min(1 << 20)).collect::<Vec<_>>(),
    }));
    if let Some((oracle, detail)) = v {
        let small = minimise(&case, &oracle);
        rep.violation = Some(Violation { property: "C27".into(), oracle: oracle.clone(), detail: detail.clone(), step: 0 });
        rep.replay = Some(json!({"engine": "netsim", "property": "C27", "oracle": oracle, "detail": detail, "run_seed": seed, "case": small, "minimised_from": case.frames.len()}));
    }
    rep
}

fn violates(case: &Case, oracle: &str) -> bool {
    let mut rep = RunReport::default();
    let mut log = Fnv::new();
    matches!(run_case(case, &mut rep, &mut log), Some((o, _)) if o == oracle)
}

/// Drop frames, simplify fragmentation and shrink string payloads while the same oracle fails.
fn minimise(case: &Case, oracle: &str) -> Case {
    let mut cur = case.clone();
    if !violates(&cur, oracle) {
        // the violation needs the second fragmentation
        cur.fragments = vec![usize::MAX];
        if !violates(&cur, oracle) {
            return case.clone();
        }
    }
    for frag in [vec![usize::MAX], vec![1]] {
        let mut c = cur.clone();
        c.fragments = frag;
        if violates(&c, oracle) {
            cur = c;
            break;
        }
    }
    let mut i = 0;
    while i < cur.frames.len() {
        let mut c = cur.clone();
        c.frames.remove(i);
        if !c.frames.is_empty() && violates(&c, oracle) {
            cur = c;
        } else {
            i += 1;
        }
    }
    cur
}

fn arg(args: &[String], name: &str) -> Option<String> {
    args.iter().position(|a| a == name).and_then(|i| args.get(i + 1).cloned())
}

fn cmd_check(args: &[String]) -> i32 {
    let tier = arg(args, "--tier").unwrap_or_else(|| "quick".into());
    let seed = simcore::verif_seed();
    let runs: u64 = arg(args, "--runs").and_then(|s| s.parse().ok()).unwrap_or(if tier == "thorough" { 3_000_000 } else { 150_000 });
    println!("netsim check property=C27 tier={} VERIF_SEED={} runs={}", tier, seed, runs);
    let cfg = BatchCfg { runs, workers: simcore::runner::default_workers(), base_seed: seed, label: 27, wall_cap: Duration::from_secs(if tier == "thorough" { 3600 } else { 600 }), run_timeout: Duration::from_secs(300), max_samples: 3 };
    let batch = run_batch(&cfg, |s, _| run(s));
    let mut exit = 0;
    if !batch.harness_panics.is_empty() {
        eprintln!("HARNESS-ERROR: run {} panicked outside the decoder: {}", batch.harness_panics[0].0, batch.harness_panics[0].2);
        exit = 2;
    }
    if !batch.hangs.is_empty() {
        eprintln!("HARNESS-ERROR: run {} exceeded the run timeout", batch.hangs[0].0);
        exit = 2;
    }
    let mut violations = 0;
    if let Some((idx, run_seed, rep)) = &batch.first_violation {
        violations = batch.violations_seen;
        let v = rep.violation.as_ref().unwrap();
        let doc = rep.replay.clone().unwrap();
        let dir = evidence::verif_root().join("replays");
        let _ = std::fs::create_dir_all(&dir);
        let path = dir.join(format!("C27-{}.json", run_seed));
        std::fs::write(&path, serde_json::to_string_pretty(&doc).unwrap()).expect("write replay");
        println!("violation in run {} (run_seed {}): oracle={}", idx, run_seed, v.oracle);
        if let Ok(c) = serde_json::from_value::<Case>(doc["case"].clone()) {
            println!("minimised {} -> {} frames; fragments {:?}", doc["minimised_from"], c.frames.len(), c.fragments.iter().map(|f| (*f).min(99999)).collect::<Vec<_>>());
            for f in &c.frames {
                let hex: String = f.bytes.iter().take(48).map(|b| format!("{:02x}", b)).collect();
                println!("    {} {} bytes {}{}", f.kind, f.bytes.len(), hex, if f.bytes.len() > 48 { ".." } else { "" });
            }
        }
        println!("  detail: {}", v.detail);
        println!("VIOLATION property=C27 replay={}", path.display());
        exit = 1;
    }
    let meta = EvidenceMeta {
        property_id: "C27",
        tier: &tier,
        seed,
        level: "exploration",
        rule: "each run = one simulated connection: a seeded sequence of 1-7 frames (well-formed messages from an independent encoder; with probability 1/2 one malformed frame followed by a well-formed one) delivered by the simulated transport in seeded fragments (1 byte .. whole stream) into the receive loop of connection.rs, and a second time in one piece; an evaluation is one decoder call checked against the oracles (no panic, round trip, exact frame consumption, no consumption beyond a declared frame, no waiting on a complete frame); non-trivial = >=1 message decoded; distinct = distinct hash of (phase, frame kinds, fragmentation class)",
        engine: "netsim",
        assumptions: vec![
            "the receive loop (append fragment, decode until Ok(None)) re-states Connection::read_message/process_queries, which are welded to tokio::net::TcpStream and cannot run inside the simulator".into(),
            "a frame whose length field is negative or below the minimum has no meaningful end: for those only panics and consumption beyond the bytes of that frame are reported".into(),
            "asking for more bytes on a negative or oversized length is accepted (the statement allows it)".into(),
        ],
        real_vs_stub: json!({"real": ["vibesql-server src/protocol (FrontendMessage::decode, decode_startup), compiled by path from /repo"], "controlled": ["fragmentation of the client byte stream (seeded)"], "stub": ["TCP transport and the connection's receive loop (re-stated)", "client (independent encoder)"]}),
        extra: serde_json::Map::new(),
    };
    evidence::write(&meta, &batch, violations, &[]);
    println!("runs={} steps={} evaluations={} distinct_nontrivial={} wall={:.1}s digest={:016x}", batch.runs_done, batch.steps, batch.evaluations, batch.distinct_nontrivial.len(), batch.wall_s, batch.batch_digest);
    exit
}

fn cmd_replay(path: &str) -> i32 {
    let doc: serde_json::Value = match std::fs::read_to_string(path).ok().and_then(|t| serde_json::from_str(&t).ok()) {
        Some(d) => d,
        None => {
            eprintln!("HARNESS-ERROR: cannot read {}", path);
            return 2;
        }
    };
    let case: Case = match serde_json::from_value(doc["case"].clone()) {
        Ok(c) => c,
        Err(e) => {
            eprintln!("HARNESS-ERROR: bad replay file: {}", e);
            return 2;
        }
    };
    simcore::runner::install_panic_hook();
    let mut rep = RunReport::default();
    let mut log = Fnv::new();
    match run_case(&case, &mut rep, &mut log) {
        Some((o, d)) => {
            println!("oracle={} detail={}", o, d);
            println!("VIOLATION property=C27 replay={}", path);
            1
        }
        None => {
            println!("no violation on replay");
            0
        }
    }
}

fn main() {
    let args: Vec<String> = std::env::args().collect();
    let code = match args.get(1).map(|s| s.as_str()) {
        Some("check") => cmd_check(&args),
        Some("replay") => cmd_replay(args.get(2).map(|s| s.as_str()).unwrap_or("")),
        Some("digest") => {
            // determinism selftest: every run twice
            let runs: u64 = arg(&args, "--runs").and_then(|s| s.parse().ok()).unwrap_or(20000);
            let mut bad = 0;
            for i in 0..runs {
                let s = simcore::runner::run_seed(simcore::verif_seed(), 27, i);
                if run(s).log_digest != run(s).log_digest {
                    bad += 1;
                }
            }
            println!("digest selftest: {} runs, {} mismatches", runs, bad);
            (bad > 0) as i32
        }
        _ => {
            eprintln!("usage: netsim check [--tier quick|thorough] [--runs N] | replay <file> | digest");
            2
        }
    };
    std::process::exit(code);
}
