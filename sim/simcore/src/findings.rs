//! known_findings.json: genuine defects of the unchanged tree that are recorded rather than repaired.
//!
//! The file is read-only at run time. An *open* entry names a committed witness (replay file) and a
//! guard (a named predicate of the workload generator that keeps exploration out of the trigger
//! region of that defect). A *fixed* entry suppresses nothing.

use serde::{Deserialize, Serialize};

#[derive(Clone, Debug, Serialize, Deserialize)]
pub struct Finding {
    pub id: String,
    pub property: String,
    /// "open" or "fixed"
    pub status: String,
    #[serde(default)]
    pub oracle: String,
    /// path relative to /verif of the committed witness replay (open entries)
    #[serde(default)]
    pub witness: String,
    /// generator guard names (open entries)
    #[serde(default)]
    pub guards: Vec<String>,
    #[serde(default)]
    pub commit: String,
    pub what: String,
}

#[derive(Clone, Debug, Default, Serialize, Deserialize)]
pub struct Findings {
    pub findings: Vec<Finding>,
}

impl Findings {
    pub fn load() -> Findings {
        let p = crate::evidence::verif_root().join("known_findings.json");
        match std::fs::read_to_string(&p) {
            Ok(s) => serde_json::from_str(&s).unwrap_or_else(|e| {
                eprintln!("HARNESS-ERROR: cannot parse {}: {}", p.display(), e);
                std::process::exit(2)
            }),
            Err(_) => Findings::default(),
        }
    }
    pub fn open_for<'a>(&'a self, property: &'a str) -> impl Iterator<Item = &'a Finding> + 'a {
        self.findings.iter().filter(move |f| f.status == "open" && f.property == property)
    }
    /// Guards apply to *all* properties (a defect quarantined for one property must not leak into
    /// another property's run either), unless VERIF_QUARANTINE=off.
    pub fn active_guards(&self) -> Vec<String> {
        if std::env::var("VERIF_QUARANTINE").map(|v| v == "off").unwrap_or(false) {
            return vec![];
        }
        let mut g: Vec<String> =
            self.findings.iter().filter(|f| f.status == "open").flat_map(|f| f.guards.iter().cloned()).collect();
        g.sort();
        g.dedup();
        g
    }
}
