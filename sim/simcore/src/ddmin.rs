//! Delta-debugging minimiser over an explicit list of items.
//!
//! `test(candidate)` must return true iff the candidate still exhibits the *same* violation
//! (same property, same oracle). The caller bounds the total number of tests.

pub fn ddmin<T: Clone>(items: Vec<T>, max_tests: usize, mut test: impl FnMut(&[T]) -> bool) -> Vec<T> {
    let mut cur = items;
    let mut tests = 0usize;
    let mut n = 2usize;
    while cur.len() >= 2 && tests < max_tests {
        let chunk = (cur.len() + n - 1) / n;
        let mut reduced = false;
        // try removing each chunk (complement testing)
        let mut start = 0;
        while start < cur.len() && tests < max_tests {
            let end = (start + chunk).min(cur.len());
            let mut cand = Vec::with_capacity(cur.len() - (end - start));
            cand.extend_from_slice(&cur[..start]);
            cand.extend_from_slice(&cur[end..]);
            tests += 1;
            if !cand.is_empty() && test(&cand) {
                cur = cand;
                n = (n - 1).max(2);
                reduced = true;
                // restart scanning at the same position
            } else {
                start = end;
            }
        }
        if !reduced {
            if chunk <= 1 {
                break;
            }
            n = (n * 2).min(cur.len());
        }
    }
    // final single-item pass
    let mut i = 0;
    while i < cur.len() && cur.len() > 1 && tests < max_tests {
        let mut cand = cur.clone();
        cand.remove(i);
        tests += 1;
        if test(&cand) {
            cur = cand;
        } else {
            i += 1;
        }
    }
    cur
}
