//! Seeded PRNG. SplitMix64 for seeding/mixing, xoshiro256** for the stream.

#[inline]
pub fn splitmix(x: &mut u64) -> u64 {
    *x = x.wrapping_add(0x9E3779B97F4A7C15);
    let mut z = *x;
    z = (z ^ (z >> 30)).wrapping_mul(0xBF58476D1CE4E5B9);
    z = (z ^ (z >> 27)).wrapping_mul(0x94D049BB133111EB);
    z ^ (z >> 31)
}

/// Mix two integers into one (used to derive per-run and per-stream seeds).
pub fn mix(a: u64, b: u64) -> u64 {
    let mut x = a ^ b.rotate_left(32) ^ 0xD6E8FEB86659FD93;
    let r = splitmix(&mut x);
    let mut y = r ^ b;
    splitmix(&mut y)
}

#[derive(Clone, Debug)]
pub struct Rng {
    s: [u64; 4],
}

impl Rng {
    pub fn new(seed: u64) -> Self {
        let mut x = seed;
        let s = [splitmix(&mut x), splitmix(&mut x), splitmix(&mut x), splitmix(&mut x)];
        Rng { s }
    }
    /// Independent sub-stream: adding draws to one stream never shifts another.
    pub fn fork(seed: u64, label: u64) -> Self {
        Rng::new(mix(seed, label))
    }
    #[inline]
    pub fn next_u64(&mut self) -> u64 {
        let r = self.s[1].wrapping_mul(5).rotate_left(7).wrapping_mul(9);
        let t = self.s[1] << 17;
        self.s[2] ^= self.s[0];
        self.s[3] ^= self.s[1];
        self.s[1] ^= self.s[2];
        self.s[0] ^= self.s[3];
        self.s[2] ^= t;
        self.s[3] = self.s[3].rotate_left(45);
        r
    }
    /// Uniform in 0..n (n > 0).
    #[inline]
    pub fn below(&mut self, n: u64) -> u64 {
        debug_assert!(n > 0);
        if n == 0 {
            return 0;
        }
        // multiply-shift; bias is irrelevant here
        ((self.next_u64() as u128 * n as u128) >> 64) as u64
    }
    #[inline]
    pub fn usize(&mut self, n: usize) -> usize {
        self.below(n as u64) as usize
    }
    /// Inclusive range.
    #[inline]
    pub fn range(&mut self, lo: i64, hi: i64) -> i64 {
        debug_assert!(lo <= hi);
        let span = (hi as i128 - lo as i128 + 1) as u128;
        if span > u64::MAX as u128 {
            return self.next_u64() as i64;
        }
        (lo as i128 + self.below(span as u64) as i128) as i64
    }
    /// True with probability num/den.
    #[inline]
    pub fn chance(&mut self, num: u64, den: u64) -> bool {
        self.below(den) < num
    }
    pub fn pick<'a, T>(&mut self, xs: &'a [T]) -> &'a T {
        &xs[self.usize(xs.len())]
    }
    /// Weighted index choice; weights may contain zeros (at least one non-zero).
    pub fn weighted(&mut self, w: &[u32]) -> usize {
        let total: u64 = w.iter().map(|x| *x as u64).sum();
        if total == 0 {
            return self.usize(w.len());
        }
        let mut r = self.below(total);
        for (i, x) in w.iter().enumerate() {
            if r < *x as u64 {
                return i;
            }
            r -= *x as u64;
        }
        w.len() - 1
    }
    pub fn shuffle<T>(&mut self, xs: &mut [T]) {
        for i in (1..xs.len()).rev() {
            let j = self.usize(i + 1);
            xs.swap(i, j);
        }
    }
}
