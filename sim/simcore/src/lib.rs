//! simcore: the deterministic-simulation core shared by every engine.
//!
//! * `Rng`         — SplitMix64/xoshiro256** PRNG; every choice of a run derives from one seed.
//! * `hashseed`    — thread-local stream served by the in-binary `getrandom()` so that std's
//!                   `RandomState` (HashMap iteration order) is a function of the run seed.
//! * `runner`      — runs many independent simulated runs on worker threads, one *fresh* thread
//!                   per run (fresh thread-locals, fresh hash keys), under `catch_unwind`, with a
//!                   watchdog; collects counters, signatures and samples.
//! * `evidence`    — writes /verif/evidence/<id>.json.
//! * `findings`    — known_findings.json handling.
//! * `ddmin`       — delta-debugging minimiser over an explicit operation list.

pub mod ddmin;
pub mod evidence;
pub mod findings;
pub mod hashseed;
pub mod rng;
pub mod runner;

pub use rng::{mix, Rng};

/// Default base seed when VERIF_SEED is not set (fixed so that the unchanged tree is explored
/// identically every time).
pub const DEFAULT_SEED: u64 = 20260921;

pub fn verif_seed() -> u64 {
    match std::env::var("VERIF_SEED") {
        Ok(s) => s.trim().parse::<u64>().unwrap_or_else(|_| {
            // accept negative / non-numeric seeds by hashing the text
            let mut h = 0xcbf29ce484222325u64;
            for b in s.bytes() {
                h ^= b as u64;
                h = h.wrapping_mul(0x100000001b3);
            }
            h
        }),
        Err(_) => DEFAULT_SEED,
    }
}

thread_local! {
    /// development aid: print the digest input of the current thread (one run of a batch)
    pub static LOGDUMP_THREAD: std::cell::Cell<bool> = const { std::cell::Cell::new(false) };
}

/// FNV-1a helper used for log digests and signatures (never std's randomised hasher).
#[derive(Clone, Copy)]
pub struct Fnv(pub u64);
impl Default for Fnv {
    fn default() -> Self {
        Fnv(0xcbf29ce484222325)
    }
}
impl Fnv {
    pub fn new() -> Self {
        Self::default()
    }
    pub fn bytes(&mut self, b: &[u8]) -> &mut Self {
        for x in b {
            self.0 ^= *x as u64;
            self.0 = self.0.wrapping_mul(0x100000001b3);
        }
        self
    }
    pub fn str(&mut self, s: &str) -> &mut Self {
        // development aid: VERIF_LOGDUMP=1 prints every string fed into a digest (use with `dbsim one`)
        static DUMP: std::sync::OnceLock<bool> = std::sync::OnceLock::new();
        if *DUMP.get_or_init(|| std::env::var_os("VERIF_LOGDUMP").is_some()) || LOGDUMP_THREAD.with(|c| c.get()) {
            eprintln!("LOG {}", s);
        }
        self.bytes(s.as_bytes());
        self.bytes(&[0xff])
    }
    pub fn u64(&mut self, v: u64) -> &mut Self {
        self.bytes(&v.to_le_bytes())
    }
    pub fn get(&self) -> u64 {
        self.0
    }
}

/// Defines the process-wide `getrandom` symbol. Must be invoked once in every harness *binary*
/// (not in a library) so the static link resolves std's and the `getrandom` crate's calls to it.
#[macro_export]
macro_rules! define_getrandom {
    () => {
        #[no_mangle]
        pub unsafe extern "C" fn getrandom(
            buf: *mut u8,
            len: usize,
            _flags: u32,
        ) -> isize {
            let s = std::slice::from_raw_parts_mut(buf, len);
            $crate::hashseed::fill(s);
            len as isize
        }
    };
}
