//! The stream behind the in-binary `getrandom()`.
//!
//! std seeds `RandomState` once per thread from the OS. Every simulated run executes on a fresh
//! thread that first calls `set(run_seed-derived)`, so the hash keys — and with them the iteration
//! order of every `HashMap`/`HashSet` in the system under test — are a function of the run seed.
//! Threads that never call `set` (main, workers) get a fixed stream.

use std::cell::Cell;

thread_local! {
    static STREAM: Cell<u64> = const { Cell::new(0x5EED_5EED_5EED_5EED) };
    static DRAWS: Cell<u64> = const { Cell::new(0) };
}

pub fn set(seed: u64) {
    STREAM.with(|s| s.set(seed));
    DRAWS.with(|d| d.set(0));
}

/// Number of getrandom() calls served on this thread since `set` (reach statistic only).
pub fn draws() -> u64 {
    DRAWS.with(|d| d.get())
}

/// Selftest knob: VERIF_HASHSEED=os serves real OS entropy instead (used once to show that event-log
/// digests then differ between processes, i.e. that the seam is what makes runs repeatable).
fn os_entropy() -> bool {
    use std::sync::atomic::{AtomicU8, Ordering};
    static MODE: AtomicU8 = AtomicU8::new(0);
    match MODE.load(Ordering::Relaxed) {
        1 => false,
        2 => true,
        _ => {
            let on = std::env::var_os("VERIF_HASHSEED").map(|v| v == "os").unwrap_or(false);
            MODE.store(if on { 2 } else { 1 }, Ordering::Relaxed);
            on
        }
    }
}

pub fn fill(buf: &mut [u8]) {
    if os_entropy() {
        use std::io::Read;
        if let Ok(mut f) = std::fs::File::open("/dev/urandom") {
            if f.read_exact(buf).is_ok() {
                return;
            }
        }
    }
    // try_with: getrandom may be called during thread teardown.
    let mut st = STREAM.try_with(|s| s.get()).unwrap_or(0x0DDB_1A5E_5BAD_5EED);
    for chunk in buf.chunks_mut(8) {
        let v = crate::rng::splitmix(&mut st).to_le_bytes();
        chunk.copy_from_slice(&v[..chunk.len()]);
    }
    let _ = STREAM.try_with(|s| s.set(st));
    let _ = DRAWS.try_with(|d| d.set(d.get() + 1));
}
