//! Batch runner: many independent simulated runs, each a pure function of its run seed.
//!
//! Every run executes on a *fresh* OS thread (so thread-locals of the system under test and the
//! per-thread hash keys start from a known state), under `catch_unwind`, watched by the worker that
//! spawned it. Which worker executes which run index is irrelevant to the run's outcome; results are
//! aggregated by run index, and when violations occur the one with the lowest run index is reported,
//! so the outcome of a batch does not depend on the worker count or on timing.

use std::cell::RefCell;
use std::collections::{BTreeMap, BTreeSet};
use std::panic::{self, AssertUnwindSafe};
use std::sync::atomic::{AtomicU64, Ordering};
use std::sync::{mpsc, Arc, Mutex, Once};
use std::time::{Duration, Instant};

use crate::rng::mix;

#[derive(Clone, Debug, serde::Serialize, serde::Deserialize)]
pub struct Violation {
    pub property: String,
    pub oracle: String,
    pub detail: String,
    pub step: usize,
}

#[derive(Clone, Debug, Default)]
pub struct RunReport {
    pub violation: Option<Violation>,
    /// fault kinds fired, reach probes, guard vetoes, op kinds ... (all measured)
    pub counters: BTreeMap<String, u64>,
    /// oracle evaluations performed
    pub evaluations: u64,
    pub steps: u64,
    /// hash of the sequence of (op kind, outcome class, reach probes)
    pub signature: u64,
    /// >= 1 successful state change and >= 1 non-vacuous oracle evaluation
    pub nontrivial: bool,
    /// digest of the complete event log (determinism selftest)
    pub log_digest: u64,
    pub sample: Option<serde_json::Value>,
    /// complete, explicit replay document (engine specific) when a violation occurred
    pub replay: Option<serde_json::Value>,
    pub ended_on_foreign_divergence: bool,
}

impl RunReport {
    pub fn count(&mut self, key: &str) {
        *self.counters.entry(key.to_string()).or_insert(0) += 1;
    }
    pub fn add(&mut self, key: &str, n: u64) {
        *self.counters.entry(key.to_string()).or_insert(0) += n;
    }
}

thread_local! {
    static LAST_PANIC: RefCell<Option<String>> = const { RefCell::new(None) };
}

static HOOK: Once = Once::new();

/// Silent panic hook: records message and location for the catching code instead of printing.
pub fn install_panic_hook() {
    HOOK.call_once(|| {
        panic::set_hook(Box::new(|info| {
            let msg = if let Some(s) = info.payload().downcast_ref::<&str>() {
                s.to_string()
            } else if let Some(s) = info.payload().downcast_ref::<String>() {
                s.clone()
            } else {
                "<non-string panic payload>".to_string()
            };
            let loc = info
                .location()
                .map(|l| format!("{}:{}", l.file(), l.line()))
                .unwrap_or_else(|| "<unknown>".into());
            let _ = LAST_PANIC.try_with(|p| *p.borrow_mut() = Some(format!("{} at {}", msg, loc)));
        }));
    });
}

pub fn take_last_panic() -> Option<String> {
    LAST_PANIC.try_with(|p| p.borrow_mut().take()).ok().flatten()
}

/// Run `f` under catch_unwind; Err carries "message at file:line".
pub fn catch<R>(f: impl FnOnce() -> R) -> Result<R, String> {
    match panic::catch_unwind(AssertUnwindSafe(f)) {
        Ok(r) => Ok(r),
        Err(_) => Err(take_last_panic().unwrap_or_else(|| "<panic>".into())),
    }
}

pub enum Isolated<R> {
    Done(R),
    Panicked(String),
    Hung,
}

/// Execute `f` on a fresh thread with the hash stream set from `seed`.
pub fn run_isolated<R: Send + 'static>(
    seed: u64,
    timeout: Duration,
    f: impl FnOnce() -> R + Send + 'static,
) -> Isolated<R> {
    install_panic_hook();
    let (tx, rx) = mpsc::channel();
    let h = std::thread::Builder::new()
        .name(format!("run-{:016x}", seed))
        .stack_size(256 << 20)
        .spawn(move || {
            crate::hashseed::set(mix(seed, 0x4A5B));
            let r = catch(f);
            let _ = tx.send(r);
        })
        .expect("spawn run thread");
    match rx.recv_timeout(timeout) {
        Ok(Ok(r)) => {
            let _ = h.join();
            Isolated::Done(r)
        }
        Ok(Err(p)) => {
            let _ = h.join();
            Isolated::Panicked(p)
        }
        Err(mpsc::RecvTimeoutError::Timeout) => Isolated::Hung, // thread is leaked
        Err(mpsc::RecvTimeoutError::Disconnected) => {
            let _ = h.join();
            Isolated::Panicked("run thread died without a result".into())
        }
    }
}

#[derive(Clone, Debug)]
pub struct BatchCfg {
    pub runs: u64,
    pub workers: usize,
    pub base_seed: u64,
    /// mixed into the run seed (engine / property label)
    pub label: u64,
    /// safety net only: the batch is sized by `runs`; hitting this cap is recorded in the result
    pub wall_cap: Duration,
    pub run_timeout: Duration,
    pub max_samples: usize,
}

pub fn run_seed(base: u64, label: u64, index: u64) -> u64 {
    mix(mix(base, label), index)
}

#[derive(Default)]
pub struct BatchResult {
    pub runs_done: u64,
    pub counters: BTreeMap<String, u64>,
    pub evaluations: u64,
    pub steps: u64,
    pub distinct_nontrivial: BTreeSet<u64>,
    pub nontrivial_runs: u64,
    pub samples: Vec<(u64, serde_json::Value)>,
    /// lowest-index violation: (run index, run seed, report)
    pub first_violation: Option<(u64, u64, RunReport)>,
    pub violations_seen: u64,
    pub hangs: Vec<(u64, u64)>,
    pub harness_panics: Vec<(u64, u64, String)>,
    pub foreign_divergences: u64,
    pub wall_s: f64,
    pub wall_capped: bool,
    /// order-independent digest of all run log digests
    pub batch_digest: u64,
}

/// `f(run_seed, run_index)` must be a pure function of its arguments and the code.
pub fn run_batch<F>(cfg: &BatchCfg, f: F) -> BatchResult
where
    F: Fn(u64, u64) -> RunReport + Send + Sync + 'static,
{
    install_panic_hook();
    let start = Instant::now();
    let f = Arc::new(f);
    let next = Arc::new(AtomicU64::new(0));
    let stop_at = Arc::new(AtomicU64::new(u64::MAX));
    let agg = Arc::new(Mutex::new(BatchResult::default()));
    let mut handles = Vec::new();
    for _w in 0..cfg.workers.max(1) {
        let f = f.clone();
        let next = next.clone();
        let stop_at = stop_at.clone();
        let agg = agg.clone();
        let cfg = cfg.clone();
        handles.push(std::thread::spawn(move || {
            let mut local = BatchResult::default();
            loop {
                let i = next.fetch_add(1, Ordering::SeqCst);
                if i >= cfg.runs || i > stop_at.load(Ordering::SeqCst) {
                    break;
                }
                if start.elapsed() > cfg.wall_cap {
                    local.wall_capped = true;
                    break;
                }
                let seed = run_seed(cfg.base_seed, cfg.label, i);
                let f2 = f.clone();
                match run_isolated(seed, cfg.run_timeout, move || f2(seed, i)) {
                    Isolated::Done(rep) => {
                        local.runs_done += 1;
                        local.evaluations += rep.evaluations;
                        local.steps += rep.steps;
                        for (k, v) in &rep.counters {
                            *local.counters.entry(k.clone()).or_insert(0) += *v;
                        }
                        if rep.nontrivial {
                            local.nontrivial_runs += 1;
                            local.distinct_nontrivial.insert(rep.signature);
                        }
                        if rep.ended_on_foreign_divergence {
                            local.foreign_divergences += 1;
                        }
                        local.batch_digest ^= mix(i, rep.log_digest);
                        if let Some(s) = &rep.sample {
                            if local.samples.len() < cfg.max_samples
                                || local.samples.iter().any(|(j, _)| *j > i)
                            {
                                local.samples.push((i, s.clone()));
                                local.samples.sort_by_key(|(j, _)| *j);
                                local.samples.truncate(cfg.max_samples);
                            }
                        }
                        if rep.violation.is_some() {
                            local.violations_seen += 1;
                            stop_at.fetch_min(i, Ordering::SeqCst);
                            let better = match &local.first_violation {
                                Some((j, _, _)) => i < *j,
                                None => true,
                            };
                            if better {
                                local.first_violation = Some((i, seed, rep));
                            }
                        }
                    }
                    Isolated::Panicked(p) => {
                        // a panic that escaped the engine's own catch_unwind = harness bug
                        local.runs_done += 1;
                        local.harness_panics.push((i, seed, p));
                    }
                    Isolated::Hung => {
                        local.runs_done += 1;
                        local.hangs.push((i, seed));
                    }
                }
            }
            let mut a = agg.lock().unwrap();
            a.runs_done += local.runs_done;
            a.evaluations += local.evaluations;
            a.steps += local.steps;
            a.nontrivial_runs += local.nontrivial_runs;
            a.violations_seen += local.violations_seen;
            a.foreign_divergences += local.foreign_divergences;
            a.batch_digest ^= local.batch_digest;
            a.wall_capped |= local.wall_capped;
            for (k, v) in local.counters {
                *a.counters.entry(k).or_insert(0) += v;
            }
            a.distinct_nontrivial.extend(local.distinct_nontrivial);
            a.samples.extend(local.samples);
            a.hangs.extend(local.hangs);
            a.harness_panics.extend(local.harness_panics);
            if let Some((i, s, r)) = local.first_violation {
                let better = match &a.first_violation {
                    Some((j, _, _)) => i < *j,
                    None => true,
                };
                if better {
                    a.first_violation = Some((i, s, r));
                }
            }
        }));
    }
    for h in handles {
        let _ = h.join();
    }
    let mut r = std::mem::take(&mut *agg.lock().unwrap());
    r.samples.sort_by_key(|(j, _)| *j);
    r.samples.truncate(cfg.max_samples);
    r.hangs.sort();
    r.harness_panics.sort();
    r.wall_s = start.elapsed().as_secs_f64();
    r
}

pub fn default_workers() -> usize {
    std::env::var("VERIF_WORKERS")
        .ok()
        .and_then(|s| s.parse().ok())
        .unwrap_or_else(|| std::thread::available_parallelism().map(|n| n.get()).unwrap_or(8))
}
