//! Evidence file writer (/verif/evidence/<id>.json, EVIDENCE.schema.json).

use serde_json::{json, Map, Value};
use std::path::PathBuf;

use crate::runner::BatchResult;

pub fn verif_root() -> PathBuf {
    PathBuf::from(std::env::var("VERIF_ROOT").unwrap_or_else(|_| "/verif".into()))
}

pub struct EvidenceMeta<'a> {
    pub property_id: &'a str,
    pub tier: &'a str,
    pub seed: u64,
    pub level: &'a str,
    pub rule: &'a str,
    pub engine: &'a str,
    pub assumptions: Vec<String>,
    pub real_vs_stub: Value,
    pub extra: Map<String, Value>,
}

pub fn write(meta: &EvidenceMeta, batch: &BatchResult, violations: u64, known_findings_printed: &[String]) {
    let mut cov = Map::new();
    cov.insert("evaluations".into(), json!(batch.evaluations));
    cov.insert("distinct_nontrivial".into(), json!(batch.distinct_nontrivial.len()));
    cov.insert("rule".into(), json!(meta.rule));
    let samples: Vec<Value> = batch.samples.iter().map(|(i, s)| json!({"run_index": i, "case": s})).collect();
    cov.insert("samples".into(), Value::Array(samples));
    cov.insert("runs".into(), json!(batch.runs_done));
    cov.insert("nontrivial_runs".into(), json!(batch.nontrivial_runs));
    cov.insert("simulated_steps".into(), json!(batch.steps));
    let per_hour = if batch.wall_s > 0.0 { (batch.runs_done as f64 / batch.wall_s * 3600.0) as u64 } else { 0 };
    cov.insert("runs_per_hour".into(), json!(per_hour));
    cov.insert("seeds".into(), json!(format!("run_seed = mix(mix(VERIF_SEED={}, label), run_index) for run_index in 0..{}", meta.seed, batch.runs_done)));
    cov.insert("counters".into(), json!(batch.counters));
    let zero: Vec<&String> = batch.counters.iter().filter(|(k, v)| k.starts_with("reach.") && **v == 0).map(|(k, _)| k).collect();
    cov.insert("reach_probes_at_zero".into(), json!(zero));
    cov.insert("ended_on_foreign_divergence".into(), json!(batch.foreign_divergences));
    cov.insert("hangs".into(), json!(batch.hangs.len()));
    cov.insert("wall_capped".into(), json!(batch.wall_capped));
    cov.insert("batch_digest".into(), json!(format!("{:016x}", batch.batch_digest)));
    cov.insert("engine".into(), json!(meta.engine));
    cov.insert("real_vs_stub".into(), meta.real_vs_stub.clone());
    cov.insert("known_findings_reported".into(), json!(known_findings_printed));
    for (k, v) in &meta.extra {
        cov.insert(k.clone(), v.clone());
    }
    let doc = json!({
        "property_id": meta.property_id,
        "tier": meta.tier,
        "seed": meta.seed,
        "level": meta.level,
        "coverage": Value::Object(cov),
        "assumptions": meta.assumptions,
        "wall_s": batch.wall_s,
        "violations": violations,
    });
    let dir = verif_root().join("evidence");
    let _ = std::fs::create_dir_all(&dir);
    let path = dir.join(format!("{}.json", meta.property_id));
    std::fs::write(&path, serde_json::to_string_pretty(&doc).unwrap()).expect("write evidence");
}
