#!/usr/bin/env python3
"""pysim - C30: Python DB-API parameter binding, decided by simulated call histories.

The compiled extension module (built from /repo's working tree) is loaded into this interpreter. Each
run is one seeded history of cursor.execute(sql, params) calls on one connection A (one or two cursors,
the same SQL text re-used with different parameter tuples with high probability). The reference is a
twin connection B that receives, through the parameter-less path, the same statement with every '?'
outside string literals replaced by a literal written by this harness. After every call: same outcome
class (result / error), same fetched rows, same table contents; values bound by INSERT read back equal
(and of the same Python type).  One integer (VERIF_SEED) decides everything; no wall clock, no hash
order (PYTHONHASHSEED is fixed by the driver), single-threaded."""
import sys, os, json, math, time, random, hashlib, traceback

PROP = "C30"

def lit(v):
    if v is None: return "NULL"
    if isinstance(v, bool): return "TRUE" if v else "FALSE"
    if isinstance(v, int): return str(v)
    if isinstance(v, float):
        if v != v: return "'NaN'"
        if v in (float("inf"), float("-inf")): return "'Infinity'" if v > 0 else "'-Infinity'"
        r = repr(v)
        if "e" in r or "E" in r:
            r = format(v, ".17f") if abs(v) < 1 else format(v, ".1f")
        return r
    if isinstance(v, str): return "'" + v.replace("'", "''") + "'"
    raise TypeError(v)

def bind_reference(sql, params):
    """replace each ? outside string literals / quoted identifiers by a literal"""
    out, i, q, k = [], 0, None, 0
    for ch in sql:
        if q:
            out.append(ch)
            if ch == q: q = None
        elif ch in "'\"":
            q = ch; out.append(ch)
        elif ch == "?":
            if k >= len(params): return None
            out.append(lit(params[k])); k += 1
        else:
            out.append(ch)
    if k != len(params): return None
    return "".join(out)

INTS = [0, 1, -1, 7, 42, 32767, 32768, -32769, 2**31 - 1, 2**31, -2**31 - 1, 2**63 - 1, -2**63 + 1]
FLOATS = [0.5, -2.25, 1.0, 1e-7, 123456.789, -0.0, 3.0]
STRS = ["", "a", "it's", "?", "a?b", "'; DROP TABLE t; --", "ünï✓", "\\", "%_", "x'y'z", "NULL", "?)", "''", "multi\nline",
        # values that differ only in white space next to a line break, or in the kind of line break
        "a\nb", "a\n b", "a \nb", "a\r\nb", "a\n", "a\n ", "if x:\n    y", "if x:\n  y", " a", "a ", "a  b", "a b", "A"]

TEMPLATES = [
    # (sql, kinds of the parameters, is_query)
    ("INSERT INTO t VALUES (?, ?, ?, ?, ?)", "kifsb", False),
    ("INSERT INTO t (id, s) VALUES (?, ?)", "ks", False),
    ("INSERT INTO t (id, i, s) VALUES (?, ?, 'fixed?')", "ki", False),
    ("SELECT id, s FROM t WHERE s = ?", "s", True),
    ("SELECT id, i, f, s, b FROM t WHERE i > ? AND s <> ?", "is", True),
    ("SELECT id, i FROM t WHERE i = ?", "i", True),
    ("SELECT id FROM t WHERE s = 'what?' OR id = ?", "k", True),
    ("SELECT id, s FROM t WHERE id = ? OR id = ?", "kk", True),
    ("SELECT id FROM t WHERE f < ?", "f", True),
    ("SELECT id FROM t WHERE b = ?", "b", True),
    ("UPDATE t SET s = ? WHERE id = ?", "sk", False),
    ("UPDATE t SET i = ?, f = ? WHERE id = ?", "ifk", False),
    ("UPDATE t SET s = 'q?' WHERE id = ?", "k", False),
    ("DELETE FROM t WHERE id = ?", "k", False),
    ("DELETE FROM t WHERE s = ?", "s", False),
    ("SELECT COUNT(*) FROM t WHERE id >= ?", "k", True),
]

def gen_value(rng, kind, keys):
    if rng.random() < 0.08 and kind != "k": return None
    if kind == "k": return rng.choice(keys) if keys and rng.random() < 0.6 else rng.randrange(0, 40)
    if kind == "i": return rng.choice(INTS)
    if kind == "f": return rng.choice(FLOATS)
    if kind == "s": return rng.choice(STRS)
    if kind == "b": return rng.choice([True, False])
    raise ValueError(kind)

def same_value(a, b):
    if type(a) != type(b):
        # int vs bool confusion matters; int/float of equal value from a numeric column is accepted
        if isinstance(a, bool) or isinstance(b, bool): return False
        if isinstance(a, (int, float)) and isinstance(b, (int, float)): return a == b
        return False
    if isinstance(a, float): return a == b or (a != a and b != b)   # Python equality: -0.0 == 0.0
    return a == b

def canon_rows(rows):
    return sorted(repr(tuple(r)) for r in rows)

class Call:
    def __init__(self, cursor, sql, params): self.cursor, self.sql, self.params = cursor, sql, params
    def to_json(self): return {"cursor": self.cursor, "sql": self.sql, "params": [repr(p) for p in self.params]}

def gen_history(seed):
    rng = random.Random(seed)
    n = rng.randrange(4, 28)
    calls, keys = [], []
    hot = rng.sample(TEMPLATES, k=rng.randrange(2, 6))   # texts re-used within the run
    for _ in range(n):
        sql, kinds, _q = rng.choice(hot) if rng.random() < 0.75 else rng.choice(TEMPLATES)
        params = tuple(gen_value(rng, k, keys) for k in kinds)
        if sql.startswith("INSERT") and params and isinstance(params[0], int): keys.append(params[0])
        cur = 1 if rng.random() < 0.2 else 0
        if rng.random() < 0.05: params = params[:-1]           # arity fault
        calls.append(Call(cur, sql, params))
    return calls

DDL = "CREATE TABLE t (id INTEGER, i BIGINT, f DOUBLE PRECISION, s VARCHAR(40), b BOOLEAN)"

def run_history(vibesql, calls, stats):
    """returns None or (oracle, detail)"""
    A, B = vibesql.connect(), vibesql.connect()
    ca = [A.cursor(), A.cursor()]
    cb = B.cursor()
    for c in (ca[0], cb): c.execute(DDL)
    for n, call in enumerate(calls):
        stats["steps"] += 1
        ref = bind_reference(call.sql, call.params)
        is_query = call.sql.startswith("SELECT")
        ea = eb = None
        ra = rb = None
        try:
            ca[call.cursor].execute(call.sql, call.params)
            if is_query: ra = ca[call.cursor].fetchall()
        except BaseException as e:
            if isinstance(e, (KeyboardInterrupt, SystemExit)): raise
            ea = type(e).__name__ + ": " + str(e)[:160]
            if "panic" in ea.lower(): return ("c30.panic", f"call {n} {call.to_json()} panicked: {ea}")
        if ref is None:
            stats["count.arity_fault"] = stats.get("count.arity_fault", 0) + 1
            stats["evaluations"] += 1
            if ea is None: return ("c30.arity", f"call {n} {call.to_json()} has a parameter/placeholder mismatch but succeeded")
        else:
            try:
                # a fresh cursor per reference statement: the reference must not depend on any per-cursor state
                cb = B.cursor()
                cb.execute(ref)
                if is_query: rb = cb.fetchall()
            except BaseException as e:
                if isinstance(e, (KeyboardInterrupt, SystemExit)): raise
                eb = type(e).__name__ + ": " + str(e)[:160]
            stats["evaluations"] += 1
            if (ea is None) != (eb is None):
                return ("c30.outcome", f"call {n} {call.to_json()}: with parameters -> {ea or 'ok'}; reference `{ref}` -> {eb or 'ok'}")
            if ea is None and is_query:
                stats["count.query_compared"] = stats.get("count.query_compared", 0) + 1
                if canon_rows(ra) != canon_rows(rb):
                    return ("c30.rows", f"call {n} {call.to_json()} fetched {canon_rows(ra)}; reference `{ref}` fetched {canon_rows(rb)}")
            if ea is None and not is_query: stats["state_changes"] += 1
            # read-back of bound values (full-row INSERT)
            if ea is None and call.sql.startswith("INSERT INTO t VALUES") and len(call.params) == 5:
                ca[0].execute("SELECT id, i, f, s, b FROM t")
                rows = ca[0].fetchall()
                stats["evaluations"] += 1
                if not any(all(same_value(x, y) for x, y in zip(r, call.params)) for r in rows):
                    return ("c30.readback", f"call {n} {call.to_json()}: no stored row reads back as the bound values; table holds {canon_rows(rows)[-4:]}")
        # tables agree
        ca[0].execute("SELECT id, i, f, s, b FROM t"); ta = ca[0].fetchall()
        cb.execute("SELECT id, i, f, s, b FROM t"); tb = cb.fetchall()
        stats["evaluations"] += 1
        if canon_rows(ta) != canon_rows(tb):
            return ("c30.state", f"after call {n} {call.to_json()} (reference `{ref}`): table with parameters {canon_rows(ta)} vs reference {canon_rows(tb)}")
    return None

def minimise(vibesql, calls, oracle):
    def fails(cs):
        r = run_history(vibesql, cs, {"steps": 0, "evaluations": 0, "state_changes": 0})
        return r is not None and r[0] == oracle
    cur = list(calls)
    i = 0
    while i < len(cur):
        cand = cur[:i] + cur[i + 1:]
        if cand and fails(cand): cur = cand
        else: i += 1
    return cur

def mix(a, b):
    return int.from_bytes(hashlib.sha256(f"{a}:{b}".encode()).digest()[:8], "big")

def main():
    args = sys.argv[1:]
    def arg(name, default=None):
        return args[args.index(name) + 1] if name in args else default
    root = os.environ.get("VERIF_ROOT", "/verif")
    moddir = arg("--module-dir")
    sys.path.insert(0, moddir)
    import vibesql
    if args and args[0] == "replay":
        doc = json.load(open(args[1]))
        calls = [Call(c["cursor"], c["sql"], tuple(eval(p, {"nan": float("nan"), "inf": float("inf")}) for p in c["params"])) for c in doc["calls"]]
        r = run_history(vibesql, calls, {"steps": 0, "evaluations": 0, "state_changes": 0})
        if r:
            print(f"oracle={r[0]} detail={r[1]}"); print(f"VIOLATION property={PROP} replay={args[1]}"); return 1
        print("no violation on replay"); return 0
    tier = arg("--tier", "quick")
    seed = int(os.environ.get("VERIF_SEED", "20260921"))
    runs = int(arg("--runs", "60000" if tier == "thorough" else "6000"))
    findings = json.load(open(os.path.join(root, "known_findings.json")))["findings"]
    known = [f for f in findings if f["property"] == PROP and f["status"] == "open"]
    print(f"pysim check property={PROP} tier={tier} VERIF_SEED={seed} runs={runs}")
    known_lines = []
    for f in known:
        doc = json.load(open(os.path.join(root, f["witness"])))
        calls = [Call(c["cursor"], c["sql"], tuple(eval(p, {"nan": float("nan"), "inf": float("inf")}) for p in c["params"])) for c in doc["calls"]]
        r = run_history(vibesql, calls, {"steps": 0, "evaluations": 0, "state_changes": 0})
        if r:
            line = f"KNOWN-FINDING: property={PROP} {f['what']} [{f['id']}]"; print(line); known_lines.append(line)
        else:
            print(f"note: witness of finding {f['id']} no longer violates")
    t0 = time.time()
    stats = {"steps": 0, "evaluations": 0, "state_changes": 0}
    distinct, nontrivial, samples, violation, digest = set(), 0, [], None, hashlib.sha256()
    for i in range(runs):
        rs = mix(mix(seed, 30), i)
        calls = gen_history(rs)
        before = (stats["evaluations"], stats["state_changes"])
        try:
            r = run_history(vibesql, calls, stats)
        except Exception:
            print("HARNESS-ERROR: " + traceback.format_exc()[-400:], file=sys.stderr); return 2
        sig = hashlib.sha256(repr([(c.cursor, c.sql, tuple(type(p).__name__ for p in c.params)) for c in calls]).encode()).hexdigest()
        digest.update(sig.encode())
        if stats["evaluations"] > before[0] and stats["state_changes"] > before[1]:
            nontrivial += 1; distinct.add(sig)
        if len(samples) < 3: samples.append({"run_index": i, "case": [c.to_json() for c in calls[:8]]})
        if r and violation is None:
            small = minimise(vibesql, calls, r[0])
            r2 = run_history(vibesql, small, {"steps": 0, "evaluations": 0, "state_changes": 0}) or r
            violation = (i, rs, r2, small, len(calls)); break
    wall = time.time() - t0
    exitc = 0
    if violation:
        i, rs, r, small, n0 = violation
        os.makedirs(os.path.join(root, "replays"), exist_ok=True)
        path = os.path.join(root, "replays", f"{PROP}-{rs}.json")
        json.dump({"engine": "pysim", "property": PROP, "oracle": r[0], "detail": r[1], "run_seed": rs, "calls": [c.to_json() for c in small], "minimised_from": n0}, open(path, "w"), indent=1)
        print(f"violation in run {i} (run_seed {rs}): oracle={r[0]}"); print(f"minimised {n0} -> {len(small)} calls")
        for c in small: print(f"    cursor{c.cursor}.execute({c.sql!r}, {c.params!r})")
        print(f"  detail: {r[1]}"); print(f"VIOLATION property={PROP} replay={path}"); exitc = 1
    ev = {"property_id": PROP, "tier": tier, "seed": seed, "level": "exploration", "wall_s": wall, "violations": 1 if violation else 0,
          "assumptions": ["reference = the same statement with every '?' outside string literals replaced by a literal written by the harness (NULL, TRUE/FALSE, decimal integers, repr of finite floats, single-quoted strings with doubled quotes), executed through the parameter-less path of a twin connection",
                          "special floats (NaN, infinities) are not bound: they have no SQL literal to compare with", "values compared with Python type: bool is not int; int/float of equal value read back from a numeric column are accepted"],
          "coverage": {"evaluations": stats["evaluations"], "distinct_nontrivial": len(distinct), "nontrivial_runs": nontrivial, "runs": i + 1 if runs else 0, "simulated_steps": stats["steps"],
                       "rule": "each run = one seeded history of 4-27 cursor.execute(sql, params) calls on one connection (two cursors), 16 statement templates with 1-5 placeholders (also '?' inside string literals), the same text re-used with different tuples with probability 3/4, values from boundary integers, floats, hostile strings, booleans and None, 5% arity faults; an evaluation is one comparison (outcome class, fetched rows, table contents, read-back of bound values) with the twin connection that executes the harness-bound literal statement; non-trivial = >=1 successful write and >=1 comparison; distinct = distinct (cursor, text, parameter-type) sequence",
                       "samples": samples, "runs_per_hour": int((i + 1) / wall * 3600) if wall > 0 else 0,
                       "seeds": f"run_seed = sha256-mix(mix(VERIF_SEED={seed}, 30), run_index)", "counters": {k: v for k, v in stats.items() if k.startswith("count.")},
                       "batch_digest": digest.hexdigest()[:16], "engine": "pysim", "known_findings_reported": known_lines,
                       "real_vs_stub": {"real": ["vibesql-python-bindings (cdylib built from /repo, loaded into CPython)", "parser, executor, storage behind it"], "controlled": ["PYTHONHASHSEED=0, single thread, seeded random.Random"], "stub": []}}}
    os.makedirs(os.path.join(root, "evidence"), exist_ok=True)
    json.dump(ev, open(os.path.join(root, "evidence", f"{PROP}.json"), "w"), indent=1)
    print(f"runs={i + 1 if runs else 0} steps={stats['steps']} evaluations={stats['evaluations']} distinct_nontrivial={len(distinct)} wall={wall:.1f}s digest={digest.hexdigest()[:16]}")
    return exitc

if __name__ == "__main__":
    sys.exit(main())
