//! Deterministic stand-in for `rayon` (simulation builds only).
//!
//! It implements the subset of rayon's API that vibesql-executor uses, with rayon's documented
//! semantics — `collect` preserves the order of indexed iterators, `par_sort_by` is a stable sort,
//! closures must be `Fn + Sync + Send` — but executes everything on the calling thread, in an order
//! chosen by a seeded schedule:
//!
//! * for `map` / `filter` / `filter_map` / `flat_map` the closure is applied to the items in a seeded
//!   permutation of their positions (results are reassembled in the original order);
//! * `par_chunks` hands out the same chunks as rayon and processes them in seeded order;
//! * `par_sort_by` is a stable merge sort whose split points and recursion order are seeded, so a
//!   comparator that is not a consistent total preorder yields schedule-dependent results;
//! * a fallible `collect::<Result<Vec<_>, E>>()` returns the error of the item that failed first *in
//!   schedule order* (rayon returns an arbitrary one).
//!
//! What it cannot show: data races between real threads (there are none here).

pub mod sim {
    use std::cell::{Cell, RefCell};
    use std::collections::BTreeMap;

    thread_local! {
        static STATE: Cell<u64> = const { Cell::new(0x9E3779B97F4A7C15) };
        static THREADS: Cell<usize> = const { Cell::new(4) };
        static COUNTERS: RefCell<BTreeMap<&'static str, u64>> = const { RefCell::new(BTreeMap::new()) };
    }

    /// Seed the schedule stream of the current thread.
    pub fn set_schedule(seed: u64) {
        STATE.with(|s| s.set(seed | 1));
    }
    pub fn set_num_threads(n: usize) {
        THREADS.with(|t| t.set(n.max(1)));
    }
    pub fn num_threads() -> usize {
        THREADS.with(|t| t.get())
    }
    pub(crate) fn next() -> u64 {
        STATE.with(|s| {
            let mut x = s.get().wrapping_add(0x9E3779B97F4A7C15);
            s.set(x);
            x = (x ^ (x >> 30)).wrapping_mul(0xBF58476D1CE4E5B9);
            x = (x ^ (x >> 27)).wrapping_mul(0x94D049BB133111EB);
            x ^ (x >> 31)
        })
    }
    pub(crate) fn below(n: usize) -> usize {
        if n == 0 {
            0
        } else {
            ((next() as u128 * n as u128) >> 64) as usize
        }
    }
    /// Seeded permutation of 0..n.
    pub(crate) fn permutation(n: usize) -> Vec<usize> {
        let mut p: Vec<usize> = (0..n).collect();
        for i in (1..n).rev() {
            let j = below(i + 1);
            p.swap(i, j);
        }
        p
    }
    pub(crate) fn count(what: &'static str, n: u64) {
        COUNTERS.with(|c| *c.borrow_mut().entry(what).or_insert(0) += n);
    }
    /// Parallel-site counters since the last call (site name, number of calls / items).
    pub fn take_counters() -> Vec<(String, u64)> {
        COUNTERS.with(|c| std::mem::take(&mut *c.borrow_mut()).into_iter().map(|(k, v)| (k.to_string(), v)).collect())
    }
}

pub fn current_num_threads() -> usize {
    sim::num_threads()
}

pub mod iter {
    use super::sim;

    /// A materialised "parallel" iterator.
    pub struct Par<T> {
        pub(crate) items: Vec<T>,
    }

    /// Apply `f` to every item in seeded order; results in original order.
    fn scheduled<T, R>(items: Vec<T>, f: impl Fn(T) -> R) -> Vec<R> {
        let n = items.len();
        let order = sim::permutation(n);
        let mut slots: Vec<Option<T>> = items.into_iter().map(Some).collect();
        let mut out: Vec<Option<R>> = (0..n).map(|_| None).collect();
        for i in order {
            let item = slots[i].take().expect("each item once");
            out[i] = Some(f(item));
        }
        out.into_iter().map(|r| r.expect("every slot filled")).collect()
    }

    pub trait ParallelIterator: Sized {
        type Item;
        fn into_items(self) -> Vec<Self::Item>;

        fn map<F, R>(self, f: F) -> Par<R>
        where
            F: Fn(Self::Item) -> R + Sync + Send,
            R: Send,
        {
            let items = self.into_items();
            sim::count("map_items", items.len() as u64);
            sim::count("map_calls", 1);
            Par { items: scheduled(items, f) }
        }
        fn filter<P>(self, p: P) -> Par<Self::Item>
        where
            P: Fn(&Self::Item) -> bool + Sync + Send,
        {
            let items = self.into_items();
            sim::count("filter_calls", 1);
            let kept = scheduled(items, |x| if p(&x) { Some(x) } else { None });
            Par { items: kept.into_iter().flatten().collect() }
        }
        fn filter_map<F, R>(self, f: F) -> Par<R>
        where
            F: Fn(Self::Item) -> Option<R> + Sync + Send,
            R: Send,
        {
            let items = self.into_items();
            sim::count("filter_map_calls", 1);
            Par { items: scheduled(items, f).into_iter().flatten().collect() }
        }
        fn flat_map<F, I>(self, f: F) -> Par<I::Item>
        where
            F: Fn(Self::Item) -> I + Sync + Send,
            I: IntoIterator,
            I::Item: Send,
        {
            let items = self.into_items();
            sim::count("flat_map_calls", 1);
            let parts: Vec<Vec<I::Item>> = scheduled(items, |x| f(x).into_iter().collect());
            Par { items: parts.into_iter().flatten().collect() }
        }
        fn cloned<'a, T>(self) -> Par<T>
        where
            T: 'a + Clone + Send,
            Self: ParallelIterator<Item = &'a T>,
        {
            Par { items: self.into_items().into_iter().cloned().collect() }
        }
        fn collect<C>(self) -> C
        where
            C: FromParallelIterator<Self::Item>,
        {
            C::from_par_items(self.into_items())
        }
        fn count(self) -> usize {
            self.into_items().len()
        }
    }

    pub trait IndexedParallelIterator: ParallelIterator {
        fn enumerate(self) -> Par<(usize, Self::Item)> {
            Par { items: self.into_items().into_iter().enumerate().collect() }
        }
    }

    impl<T> ParallelIterator for Par<T> {
        type Item = T;
        fn into_items(self) -> Vec<T> {
            self.items
        }
    }
    impl<T> IndexedParallelIterator for Par<T> {}

    pub trait FromParallelIterator<T> {
        fn from_par_items(items: Vec<T>) -> Self;
    }
    impl<T> FromParallelIterator<T> for Vec<T> {
        fn from_par_items(items: Vec<T>) -> Self {
            items
        }
    }
    /// Fallible collect. The closure results were already computed in schedule order by `map`; to
    /// mimic "an arbitrary error wins", the reported error is chosen by the schedule among the errors.
    impl<T, E> FromParallelIterator<Result<T, E>> for Result<Vec<T>, E> {
        fn from_par_items(items: Vec<Result<T, E>>) -> Self {
            let n_err = items.iter().filter(|r| r.is_err()).count();
            if n_err == 0 {
                return Ok(items.into_iter().map(|r| r.ok().expect("no errors")).collect());
            }
            let pick = sim::below(n_err);
            let mut k = 0;
            for r in items {
                if let Err(e) = r {
                    if k == pick {
                        return Err(e);
                    }
                    k += 1;
                }
            }
            unreachable!()
        }
    }
    impl<T> FromParallelIterator<Option<T>> for Option<Vec<T>> {
        fn from_par_items(items: Vec<Option<T>>) -> Self {
            items.into_iter().collect()
        }
    }

    pub trait IntoParallelIterator {
        type Item;
        fn into_par_iter(self) -> Par<Self::Item>;
    }
    impl<T: Send> IntoParallelIterator for Vec<T> {
        type Item = T;
        fn into_par_iter(self) -> Par<T> {
            sim::count("into_par_iter_calls", 1);
            Par { items: self }
        }
    }
    impl<'a, T: Sync> IntoParallelIterator for &'a [T] {
        type Item = &'a T;
        fn into_par_iter(self) -> Par<&'a T> {
            sim::count("into_par_iter_calls", 1);
            Par { items: self.iter().collect() }
        }
    }
    impl<'a, T: Sync> IntoParallelIterator for &'a Vec<T> {
        type Item = &'a T;
        fn into_par_iter(self) -> Par<&'a T> {
            sim::count("into_par_iter_calls", 1);
            Par { items: self.iter().collect() }
        }
    }
    impl IntoParallelIterator for std::ops::Range<usize> {
        type Item = usize;
        fn into_par_iter(self) -> Par<usize> {
            Par { items: self.collect() }
        }
    }

    pub trait IntoParallelRefIterator<'a> {
        type Item: 'a;
        fn par_iter(&'a self) -> Par<Self::Item>;
    }
    impl<'a, T: Sync + 'a> IntoParallelRefIterator<'a> for [T] {
        type Item = &'a T;
        fn par_iter(&'a self) -> Par<&'a T> {
            sim::count("par_iter_calls", 1);
            Par { items: self.iter().collect() }
        }
    }
    impl<'a, T: Sync + 'a> IntoParallelRefIterator<'a> for Vec<T> {
        type Item = &'a T;
        fn par_iter(&'a self) -> Par<&'a T> {
            sim::count("par_iter_calls", 1);
            Par { items: self.iter().collect() }
        }
    }
}

pub mod slice {
    use super::iter::Par;
    use super::sim;
    use std::cmp::Ordering;

    pub trait ParallelSlice<T: Sync> {
        fn as_parallel_slice(&self) -> &[T];
        fn par_chunks(&self, chunk_size: usize) -> Par<&[T]> {
            assert!(chunk_size != 0, "chunk_size must not be zero");
            let chunks: Vec<&[T]> = self.as_parallel_slice().chunks(chunk_size).collect();
            sim::count("par_chunks_calls", 1);
            sim::count("par_chunks_chunks", chunks.len() as u64);
            if chunks.len() > 1 {
                sim::count("par_chunks_multi_chunk_calls", 1);
            }
            Par { items: chunks }
        }
    }
    impl<T: Sync> ParallelSlice<T> for [T] {
        fn as_parallel_slice(&self) -> &[T] {
            self
        }
    }

    /// Stable merge sort with seeded split points and recursion order.
    fn msort<T, F: Fn(&T, &T) -> Ordering>(v: Vec<T>, cmp: &F) -> Vec<T> {
        let n = v.len();
        if n <= 1 {
            return v;
        }
        let split = 1 + sim::below(n - 1);
        let mut left = v;
        let right = left.split_off(split);
        let (l, r) = if sim::below(2) == 0 {
            let l = msort(left, cmp);
            let r = msort(right, cmp);
            (l, r)
        } else {
            let r = msort(right, cmp);
            let l = msort(left, cmp);
            (l, r)
        };
        // stable merge: on ties the left element goes first
        let mut out = Vec::with_capacity(n);
        let mut li = l.into_iter().peekable();
        let mut ri = r.into_iter().peekable();
        loop {
            match (li.peek(), ri.peek()) {
                (Some(a), Some(b)) => {
                    if cmp(b, a) == Ordering::Less {
                        out.push(ri.next().unwrap());
                    } else {
                        out.push(li.next().unwrap());
                    }
                }
                (Some(_), None) => out.push(li.next().unwrap()),
                (None, Some(_)) => out.push(ri.next().unwrap()),
                (None, None) => break,
            }
        }
        out
    }

    pub trait ParallelSliceMut<T: Send> {
        fn as_parallel_slice_mut(&mut self) -> &mut [T];
        fn par_sort_by<F>(&mut self, compare: F)
        where
            F: Fn(&T, &T) -> Ordering + Sync,
        {
            sim::count("par_sort_calls", 1);
            let s = self.as_parallel_slice_mut();
            let n = s.len();
            // move out, sort, move back (T need not be Clone)
            let mut tmp: Vec<T> = Vec::with_capacity(n);
            unsafe {
                // SAFETY: every element is read exactly once and written back exactly once below;
                // `compare` may panic, in which case the guard writes the elements back unsorted.
                struct Guard<'a, T> {
                    dst: &'a mut [T],
                    src: Option<Vec<T>>,
                }
                impl<'a, T> Drop for Guard<'a, T> {
                    fn drop(&mut self) {
                        if let Some(src) = self.src.take() {
                            for (i, x) in src.into_iter().enumerate() {
                                unsafe { std::ptr::write(self.dst.as_mut_ptr().add(i), x) };
                            }
                        }
                    }
                }
                for i in 0..n {
                    tmp.push(std::ptr::read(s.as_ptr().add(i)));
                }
                let mut guard = Guard { dst: s, src: None };
                // catch a panicking comparator so that no element is dropped twice
                let res = std::panic::catch_unwind(std::panic::AssertUnwindSafe(|| msort(tmp, &compare)));
                match res {
                    Ok(sorted) => {
                        guard.src = Some(sorted);
                        drop(guard);
                    }
                    Err(p) => {
                        // elements were consumed by msort; the slice memory must not be dropped again
                        std::mem::forget(guard);
                        std::panic::resume_unwind(p);
                    }
                }
            }
        }
        fn par_sort_unstable_by<F>(&mut self, compare: F)
        where
            F: Fn(&T, &T) -> Ordering + Sync,
        {
            self.par_sort_by(compare)
        }
    }
    impl<T: Send> ParallelSliceMut<T> for [T] {
        fn as_parallel_slice_mut(&mut self) -> &mut [T] {
            self
        }
    }
}

pub mod prelude {
    pub use crate::iter::{FromParallelIterator, IndexedParallelIterator, IntoParallelIterator, IntoParallelRefIterator, ParallelIterator};
    pub use crate::slice::{ParallelSlice, ParallelSliceMut};
}
