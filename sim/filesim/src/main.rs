//! filesim — fault injection over stored database images (property C20).
//!
//! Valid images (binary, zstd-compressed binary, JSON, SQL dump) are produced by seeded histories on
//! the real engine. Each image is damaged by a seeded fault (truncation at every offset for small
//! images, bit flips, boundary-value overwrites biased to length/count/tag fields, 512-byte block
//! zeroing / duplication / swap, garbage tail, arbitrary bytes behind a valid magic, arbitrary byte
//! strings) and handed to every loader under `catch_unwind`. A counting `GlobalAlloc` refuses any
//! single request above `64 MiB + 64 x file_len`, which aborts the worker; hangs are caught by a
//! watchdog. Cases run in worker subprocesses; an abort or hang is attributed to the case in flight
//! from the worker's progress log and re-run alone to confirm.
//!
//! Oracle: every loader returns Ok or Err. No panic, no abort, no hang (60 s), no oversized allocation.

simcore::define_getrandom!();

use simcore::rng::mix;
use simcore::Rng;
use std::alloc::{GlobalAlloc, Layout, System};
use std::collections::{BTreeMap, BTreeSet};
use std::io::{Read, Write};
use std::path::{Path, PathBuf};
use std::sync::atomic::{AtomicU64, AtomicUsize, Ordering};
use vibesql_storage::Database;

// ------------------------------------------------------------------ allocation guard
struct LimitAlloc;
static ALLOC_LIMIT: AtomicUsize = AtomicUsize::new(usize::MAX);
static ALLOC_REFUSED: AtomicUsize = AtomicUsize::new(0);

unsafe impl GlobalAlloc for LimitAlloc {
    unsafe fn alloc(&self, l: Layout) -> *mut u8 {
        if l.size() > ALLOC_LIMIT.load(Ordering::Relaxed) {
            ALLOC_REFUSED.store(l.size(), Ordering::Relaxed);
            return std::ptr::null_mut();
        }
        System.alloc(l)
    }
    unsafe fn dealloc(&self, p: *mut u8, l: Layout) {
        System.dealloc(p, l)
    }
    unsafe fn alloc_zeroed(&self, l: Layout) -> *mut u8 {
        if l.size() > ALLOC_LIMIT.load(Ordering::Relaxed) {
            ALLOC_REFUSED.store(l.size(), Ordering::Relaxed);
            return std::ptr::null_mut();
        }
        System.alloc_zeroed(l)
    }
    unsafe fn realloc(&self, p: *mut u8, l: Layout, new: usize) -> *mut u8 {
        if new > ALLOC_LIMIT.load(Ordering::Relaxed) {
            ALLOC_REFUSED.store(new, Ordering::Relaxed);
            return std::ptr::null_mut();
        }
        System.realloc(p, l, new)
    }
}
#[global_allocator]
static GLOBAL: LimitAlloc = LimitAlloc;

// ------------------------------------------------------------------ images
#[derive(Clone, Copy, Debug, PartialEq, Eq, PartialOrd, Ord)]
enum Fmt {
    Binary,
    Compressed,
    Json,
    Sql,
}
const FMTS: [Fmt; 4] = [Fmt::Binary, Fmt::Compressed, Fmt::Json, Fmt::Sql];
impl Fmt {
    fn ext(&self) -> &'static str {
        match self {
            Fmt::Binary => "vbsql",
            Fmt::Compressed => "vbsqlz",
            Fmt::Json => "json",
            Fmt::Sql => "sql",
        }
    }
    fn name(&self) -> &'static str {
        match self {
            Fmt::Binary => "binary",
            Fmt::Compressed => "compressed",
            Fmt::Json => "json",
            Fmt::Sql => "sql",
        }
    }
}

fn tmp_dir() -> PathBuf {
    let base = std::env::var("VERIF_TMP").unwrap_or_else(|_| format!("/dev/shm/vsim.{}", std::process::id()));
    let p = PathBuf::from(base).join(format!("filesim.{}", std::process::id()));
    let _ = std::fs::create_dir_all(&p);
    p
}

/// Build image `i` of the batch: the four serialisations of one seeded database.
fn make_images(base_seed: u64, i: u64, dir: &Path) -> Vec<(Fmt, Vec<u8>)> {
    let (db, _h) = dbsim::imagegen::make_db(mix(base_seed, i), i % 2 == 0);
    let mut out = Vec::new();
    for f in FMTS {
        let p = dir.join(format!("img.{}", f.ext()));
        let r = match f {
            Fmt::Binary => db.save_binary(&p).map_err(|e| e.to_string()),
            Fmt::Compressed => db.save_compressed(&p).map_err(|e| e.to_string()),
            Fmt::Json => db.save_json(&p).map_err(|e| e.to_string()),
            Fmt::Sql => db.save_sql_dump(&p).map_err(|e| e.to_string()),
        };
        if r.is_ok() {
            if let Ok(b) = std::fs::read(&p) {
                out.push((f, fix_clock(f, b)));
            }
        }
        let _ = std::fs::remove_file(&p);
    }
    out
}

/// The SQL dump and the JSON image embed `chrono::Utc::now()`. The clock is not behind a seam, so
/// the text is replaced by a constant: images (and with them the case list) are then a function of
/// the seed alone.
fn fix_clock(f: Fmt, b: Vec<u8>) -> Vec<u8> {
    fn replace_until(b: &[u8], marker: &[u8], stop: u8, with: &[u8]) -> Vec<u8> {
        if let Some(i) = b.windows(marker.len()).position(|w| w == marker) {
            let start = i + marker.len();
            if let Some(j) = b[start..].iter().position(|c| *c == stop) {
                let mut v = b[..start].to_vec();
                v.extend_from_slice(with);
                v.extend_from_slice(&b[start + j..]);
                return v;
            }
        }
        b.to_vec()
    }
    match f {
        Fmt::Sql => replace_until(&b, b"-- Generated: ", b'\n', b"2026-01-01 00:00:00 UTC"),
        Fmt::Json => {
            if let Some(i) = b.windows(11).position(|w| w == b"\"timestamp\"") {
                if let Some(q) = b[i + 11..].iter().position(|c| *c == b'"') {
                    let start = i + 11 + q + 1;
                    if let Some(e) = b[start..].iter().position(|c| *c == b'"') {
                        let mut v = b[..start].to_vec();
                        v.extend_from_slice(b"2026-01-01T00:00:00Z");
                        v.extend_from_slice(&b[start + e..]);
                        return v;
                    }
                }
            }
            b
        }
        _ => b,
    }
}

// ------------------------------------------------------------------ faults
#[derive(Clone, Debug)]
struct Fault {
    kind: &'static str,
    desc: String,
}

fn n_faults(len: usize, thorough: bool) -> usize {
    let trunc = if len <= 8192 { len + 1 } else { 512 };
    let extra = if thorough { 3600 } else { 900 };
    trunc + extra
}

/// Fault number `k` for an image of `len` bytes (deterministic in (seed, image, fmt, k)).
fn apply_fault(orig: &[u8], k: usize, rng: &mut Rng, thorough: bool) -> (Vec<u8>, Fault) {
    let len = orig.len();
    let trunc = if len <= 8192 { len + 1 } else { 512 };
    if k < trunc {
        let at = if len <= 8192 { k } else { rng.usize(len + 1) };
        return (orig[..at].to_vec(), Fault { kind: "truncate", desc: format!("truncate at {}", at) });
    }
    let mut b = orig.to_vec();
    let k2 = k - trunc;
    let scale = if thorough { 4 } else { 1 };
    // positions biased to the head of the file (magic, version, counts, lengths, tags)
    let pos = |rng: &mut Rng, len: usize| -> usize {
        if len == 0 {
            0
        } else if rng.chance(1, 2) {
            rng.usize(len.min(256))
        } else {
            rng.usize(len)
        }
    };
    if k2 < 300 * scale {
        // a valid multi-byte UTF-8 sequence spliced into a run of printable ASCII: stored strings stay
        // valid UTF-8 but their byte offsets stop being character boundaries
        let printable = |x: u8| (0x20..0x7f).contains(&x);
        let seq: &[u8] = match rng.below(4) {
            0 | 1 => &[0xc3, 0xa9],
            2 => &[0xe2, 0x82, 0xac],
            _ => &[0xf0, 0x9f, 0x98, 0x80],
        };
        let starts: Vec<usize> = (0..len.saturating_sub(seq.len() - 1)).filter(|&p| b[p..p + seq.len()].iter().all(|x| printable(*x))).collect();
        if starts.is_empty() {
            return (b, Fault { kind: "utf8_splice", desc: "no printable run".into() });
        }
        let n = 1 + rng.usize(2);
        let mut d = Vec::new();
        for _ in 0..n {
            let p = *rng.pick(&starts);
            b[p..p + seq.len()].copy_from_slice(seq);
            d.push(p.to_string());
        }
        return (b, Fault { kind: "utf8_splice", desc: format!("{}-byte character at {}", seq.len(), d.join(",")) });
    }
    let k2 = k2 - 300 * scale;
    if k2 < 250 * scale {
        if len == 0 {
            return (b, Fault { kind: "bitflip", desc: "empty".into() });
        }
        let n = 1 + rng.usize(3);
        let mut d = Vec::new();
        for _ in 0..n {
            let p = pos(rng, len);
            let bit = rng.usize(8);
            b[p] ^= 1 << bit;
            d.push(format!("{}:{}", p, bit));
        }
        (b, Fault { kind: "bitflip", desc: format!("flip {}", d.join(",")) })
    } else if k2 < 480 * scale {
        if len == 0 {
            return (b, Fault { kind: "overwrite", desc: "empty".into() });
        }
        let p = pos(rng, len);
        let n = (1 + rng.usize(8)).min(len - p);
        let v = *rng.pick(&[0x00u8, 0x7f, 0x80, 0xff, 0xfe, 0x01]);
        for x in &mut b[p..p + n] {
            *x = v;
        }
        (b, Fault { kind: "overwrite", desc: format!("overwrite {} bytes at {} with {:02x}", n, p, v) })
    } else if k2 < 530 * scale {
        let nb = len / 512;
        if nb < 1 {
            let p = pos(rng, len.max(1));
            b.insert(p.min(len), 0xaa);
            return (b, Fault { kind: "insert", desc: format!("insert byte at {}", p) });
        }
        let i = rng.usize(nb);
        match rng.below(3) {
            0 => {
                for x in &mut b[i * 512..(i + 1) * 512] {
                    *x = 0;
                }
                (b, Fault { kind: "block_zero", desc: format!("zero block {}", i) })
            }
            1 => {
                let j = rng.usize(nb);
                let src = orig[j * 512..(j + 1) * 512].to_vec();
                b[i * 512..(i + 1) * 512].copy_from_slice(&src);
                (b, Fault { kind: "block_dup", desc: format!("block {} := block {}", i, j) })
            }
            _ => {
                let j = rng.usize(nb);
                for o in 0..512 {
                    b.swap(i * 512 + o, j * 512 + o);
                }
                (b, Fault { kind: "block_swap", desc: format!("swap blocks {} and {}", i, j) })
            }
        }
    } else if k2 < 560 * scale {
        let n = 1 + rng.usize(64);
        for _ in 0..n {
            b.push(rng.next_u64() as u8);
        }
        (b, Fault { kind: "garbage_tail", desc: format!("{} garbage bytes appended", n) })
    } else if k2 < 590 * scale {
        // arbitrary bytes behind a valid magic/header prefix
        let keep = rng.usize(len.min(16) + 1);
        let n = rng.usize(200);
        b.truncate(keep);
        for _ in 0..n {
            b.push(if rng.chance(1, 4) { *rng.pick(&[0u8, 0xff, 0x7f, 0x80]) } else { rng.next_u64() as u8 });
        }
        (b, Fault { kind: "arbitrary_after_magic", desc: format!("keep {} bytes then {} arbitrary", keep, n) })
    } else {
        let n = rng.usize(300);
        let v: Vec<u8> = (0..n).map(|_| rng.next_u64() as u8).collect();
        (v, Fault { kind: "arbitrary", desc: format!("{} arbitrary bytes", n) })
    }
}

// ------------------------------------------------------------------ simulated reader (contract-legal perturbation)
struct SimRead<'a> {
    data: &'a [u8],
    pos: usize,
    rng: Rng,
}
impl<'a> Read for SimRead<'a> {
    fn read(&mut self, buf: &mut [u8]) -> std::io::Result<usize> {
        if buf.is_empty() {
            return Ok(0);
        }
        if self.rng.chance(1, 8) {
            return Err(std::io::Error::new(std::io::ErrorKind::Interrupted, "simulated EINTR"));
        }
        let left = self.data.len() - self.pos;
        if left == 0 {
            return Ok(0);
        }
        let n = (1 + self.rng.usize(buf.len())).min(left);
        buf[..n].copy_from_slice(&self.data[self.pos..self.pos + n]);
        self.pos += n;
        Ok(n)
    }
}

// ------------------------------------------------------------------ one case
#[derive(Default)]
struct CaseResult {
    loaders: Vec<(String, String)>, // (loader, outcome class)
    panic: Option<String>,
}

fn run_loaders(fmt: Fmt, bytes: &[u8], dir: &Path, seed: u64, all_loaders: bool) -> CaseResult {
    use simcore::runner::catch;
    let mut res = CaseResult::default();
    let with_ext = dir.join(format!("case.{}", fmt.ext()));
    let no_ext = dir.join("case");
    let _ = std::fs::write(&with_ext, bytes);
    let _ = std::fs::write(&no_ext, bytes);
    ALLOC_LIMIT.store((64usize << 20) + 64 * bytes.len(), Ordering::Relaxed);
    let mut record = |name: &str, r: Result<Result<(), String>, String>| match r {
        Ok(Ok(())) => res.loaders.push((name.to_string(), "ok".into())),
        Ok(Err(_)) => res.loaders.push((name.to_string(), "err".into())),
        Err(p) => {
            res.loaders.push((name.to_string(), "panic".into()));
            if res.panic.is_none() {
                res.panic = Some(format!("{}: {}", name, p));
            }
        }
    };
    let want = |f: Fmt| all_loaders || f == fmt;
    if want(Fmt::Binary) {
        record("load_binary", catch(|| Database::load_binary(&with_ext).map(|_| ()).map_err(|e| e.to_string())));
        // the Read-generic codec over a reader that returns short reads and EINTR
        let r = catch(|| {
            let mut rd = std::io::BufReader::with_capacity(7, SimRead { data: bytes, pos: 0, rng: Rng::new(seed) });
            vibesql_storage::persistence::binary::read_header(&mut rd).map_err(|e| e.to_string())?;
            let mut db = vibesql_storage::persistence::binary::read_catalog(&mut rd).map_err(|e| e.to_string())?;
            vibesql_storage::persistence::binary::read_data(&mut rd, &mut db).map_err(|e| e.to_string())?;
            Ok(())
        });
        record("binary_codec_over_simulated_reader", r);
    }
    if want(Fmt::Compressed) {
        record("load_compressed", catch(|| Database::load_compressed(&with_ext).map(|_| ()).map_err(|e| e.to_string())));
    }
    if want(Fmt::Json) {
        record("load_json", catch(|| Database::load_json(&with_ext).map(|_| ()).map_err(|e| e.to_string())));
    }
    if want(Fmt::Sql) {
        record("load_sql_dump", catch(|| vibesql_executor::load_sql_dump(&with_ext).map(|_| ()).map_err(|e| e.to_string())));
    }
    record("load_autodetect_ext", catch(|| Database::load(&with_ext).map(|_| ()).map_err(|e| e.to_string())));
    record("load_autodetect_noext", catch(|| Database::load(&no_ext).map(|_| ()).map_err(|e| e.to_string())));
    ALLOC_LIMIT.store(usize::MAX, Ordering::Relaxed);
    res
}

fn hex(b: &[u8]) -> String {
    let mut s = String::with_capacity(b.len() * 2);
    for x in b {
        s.push_str(&format!("{:02x}", x));
    }
    s
}
fn unhex(s: &str) -> Vec<u8> {
    (0..s.len() / 2).map(|i| u8::from_str_radix(&s[2 * i..2 * i + 2], 16).unwrap_or(0)).collect()
}

// ------------------------------------------------------------------ worker
static CASE_STARTED_MS: AtomicU64 = AtomicU64::new(0);
static CASE_SEQ: AtomicU64 = AtomicU64::new(0);

fn now_ms() -> u64 {
    std::time::SystemTime::now().duration_since(std::time::UNIX_EPOCH).map(|d| d.as_millis() as u64).unwrap_or(0)
}

struct Args {
    seed: u64,
    images: u64,
    thorough: bool,
    slice: (u64, u64),
    out: PathBuf,
    only: Option<(u64, usize, usize)>,
}

/// Enumerate the cases of this worker's slice and execute them.
fn worker(a: &Args) -> i32 {
    simcore::runner::install_panic_hook();
    let dir = tmp_dir();
    let mut out = std::fs::OpenOptions::new().create(true).append(true).open(&a.out).expect("open worker log");
    // hang watchdog: wall clock is used only to bound a case, never to decide an outcome
    let out_path = a.out.clone();
    std::thread::spawn(move || loop {
        std::thread::sleep(std::time::Duration::from_millis(500));
        let st = CASE_STARTED_MS.load(Ordering::Relaxed);
        if st != 0 && now_ms().saturating_sub(st) > 60_000 {
            if let Ok(mut f) = std::fs::OpenOptions::new().append(true).open(&out_path) {
                let _ = writeln!(f, "H {}", CASE_SEQ.load(Ordering::Relaxed));
            }
            std::process::exit(3);
        }
    });
    let mut seq = 0u64;
    for img in 0..a.images {
        if a.only.map(|(i, _, _)| i != img).unwrap_or(false) {
            continue;
        }
        if a.only.is_none() && img % a.slice.1 != a.slice.0 {
            continue;
        }
        let images = make_images(a.seed, img, &dir);
        for (fi, (fmt, bytes)) in images.iter().enumerate() {
            if a.only.map(|(_, f, _)| f != fi).unwrap_or(false) {
                continue;
            }
            let n = n_faults(bytes.len(), a.thorough);
            for k in 0..n {
                if a.only.map(|(_, _, kk)| kk != k).unwrap_or(false) {
                    continue;
                }
                let mut rng = Rng::new(mix(mix(a.seed, img), mix(fi as u64, k as u64)));
                let (damaged, fault) = apply_fault(bytes, k, &mut rng, a.thorough);
                seq += 1;
                CASE_SEQ.store(seq, Ordering::Relaxed);
                let _ = writeln!(out, "B {} {} {} {} {}", seq, img, fi, k, fault.kind);
                let _ = out.flush();
                CASE_STARTED_MS.store(now_ms(), Ordering::Relaxed);
                let all = matches!(fault.kind, "arbitrary" | "arbitrary_after_magic" | "garbage_tail");
                let r = run_loaders(*fmt, &damaged, &dir, mix(a.seed, seq), all);
                CASE_STARTED_MS.store(0, Ordering::Relaxed);
                let sig: Vec<String> = r.loaders.iter().map(|(l, o)| format!("{}={}", l, o)).collect();
                match &r.panic {
                    Some(p) => {
                        let _ = writeln!(out, "P {} {} {} {} {} {} | {} | {}", seq, img, fi, k, fmt.name(), fault.kind, p.replace('\n', " "), fault.desc);
                    }
                    None => {
                        let _ = writeln!(out, "E {} {} {} {}", seq, fmt.name(), fault.kind, sig.join(","));
                    }
                }
            }
        }
    }
    let _ = writeln!(out, "DONE {}", seq);
    let _ = std::fs::remove_dir_all(&dir);
    0
}

// ------------------------------------------------------------------ parent
fn arg(args: &[String], name: &str) -> Option<String> {
    args.iter().position(|a| a == name).and_then(|i| args.get(i + 1).cloned())
}

fn write_replay(seed: u64, img: u64, fi: usize, k: usize, thorough: bool, what: &str, detail: &str) -> PathBuf {
    let dir = tmp_dir();
    let images = make_images(seed, img, &dir);
    let (fmt, bytes) = images[fi.min(images.len() - 1)].clone();
    let mut rng = Rng::new(mix(mix(seed, img), mix(fi as u64, k as u64)));
    let (damaged, fault) = apply_fault(&bytes, k, &mut rng, thorough);
    let doc = serde_json::json!({
        "engine": "filesim", "property": "C20", "oracle": what, "seed": seed, "image": img, "format": fmt.name(), "format_index": fi,
        "fault_no": k, "fault": fault.desc, "fault_kind": fault.kind, "thorough": thorough, "detail": detail,
        "original_len": bytes.len(), "damaged_hex": hex(&damaged),
    });
    let rdir = simcore::evidence::verif_root().join("replays");
    let _ = std::fs::create_dir_all(&rdir);
    let p = rdir.join(format!("C20-{}-{}-{}-{}.json", seed, img, fi, k));
    std::fs::write(&p, serde_json::to_string_pretty(&doc).unwrap()).expect("write replay");
    let _ = std::fs::remove_dir_all(&dir);
    p
}

fn spawn_worker(exe: &Path, a: &Args, only: Option<(u64, usize, usize)>, slice: (u64, u64), out: &Path) -> std::process::Child {
    let mut c = std::process::Command::new(exe);
    c.arg("worker").arg("--seed").arg(a.seed.to_string()).arg("--images").arg(a.images.to_string()).arg("--slice").arg(format!("{}/{}", slice.0, slice.1)).arg("--out").arg(out);
    if a.thorough {
        c.arg("--thorough");
    }
    if let Some((i, f, k)) = only {
        c.arg("--only").arg(format!("{},{},{}", i, f, k));
    }
    c.env("RUST_BACKTRACE", "0");
    c.stdout(std::process::Stdio::null()).stderr(std::process::Stdio::piped());
    c.spawn().expect("spawn worker")
}

fn check(args: &[String]) -> i32 {
    let start = std::time::Instant::now();
    let tier = arg(args, "--tier").or_else(|| std::env::var("VERIF_TIER").ok()).unwrap_or_else(|| "quick".into());
    let thorough = tier == "thorough";
    let seed = simcore::verif_seed();
    let images: u64 = arg(args, "--images").and_then(|s| s.parse().ok()).unwrap_or(if thorough { 1200 } else { 96 });
    let nworkers = simcore::runner::default_workers() as u64;
    let exe = std::env::current_exe().expect("current exe");
    let dir = tmp_dir();
    println!("filesim check property=C20 tier={} VERIF_SEED={} images={} workers={}", tier, seed, images, nworkers);
    let findings = simcore::findings::Findings::load();
    let mut known_lines = Vec::new();
    for f in findings.open_for("C20") {
        let p = simcore::evidence::verif_root().join(&f.witness);
        let code = replay(p.to_str().unwrap_or(""), true);
        if code == 1 {
            let line = format!("KNOWN-FINDING: property=C20 {} [{}]", f.what, f.id);
            println!("{}", line);
            known_lines.push(line);
        }
    }
    let a = Args { seed, images, thorough, slice: (0, 1), out: PathBuf::new(), only: None };
    let mut children = Vec::new();
    for w in 0..nworkers {
        let out = dir.join(format!("w{}.log", w));
        let _ = std::fs::remove_file(&out);
        children.push((w, out.clone(), spawn_worker(&exe, &a, None, (w, nworkers), &out)));
    }
    let mut violations: Vec<(String, u64, usize, usize, String)> = Vec::new();
    let mut harness_err = false;
    let mut cases = 0u64;
    let mut by_fault: BTreeMap<String, u64> = BTreeMap::new();
    let mut by_loader: BTreeMap<String, u64> = BTreeMap::new();
    let mut sigs: BTreeSet<u64> = BTreeSet::new();
    let mut samples: Vec<serde_json::Value> = Vec::new();
    for (w, out, mut ch) in children {
        let status = ch.wait().expect("wait worker");
        let mut stderr = String::new();
        if let Some(mut e) = ch.stderr.take() {
            let _ = e.read_to_string(&mut stderr);
        }
        let log = std::fs::read_to_string(&out).unwrap_or_default();
        let mut last_begin: Option<(u64, u64, usize, usize, String)> = None;
        let mut done = false;
        for line in log.lines() {
            let p: Vec<&str> = line.splitn(7, ' ').collect();
            match p.first().copied() {
                Some("B") if p.len() >= 6 => {
                    last_begin = Some((p[1].parse().unwrap_or(0), p[2].parse().unwrap_or(0), p[3].parse().unwrap_or(0), p[4].parse().unwrap_or(0), p[5].to_string()));
                }
                Some("E") if p.len() >= 5 => {
                    cases += 1;
                    *by_fault.entry(p[3].to_string()).or_insert(0) += 1;
                    let mut h = simcore::Fnv::new();
                    h.str(p[2]).str(p[3]).str(p[4]);
                    sigs.insert(h.get());
                    for lo in p[4].split(',') {
                        *by_loader.entry(format!("{}.{}", p[2], lo)).or_insert(0) += 1;
                    }
                    if samples.len() < 3 && p[3] != "truncate" {
                        samples.push(serde_json::json!({"format": p[2], "fault": p[3], "loaders": p[4]}));
                    }
                    last_begin = None;
                }
                Some("P") => {
                    cases += 1;
                    let q: Vec<&str> = line.splitn(8, ' ').collect();
                    if q.len() >= 8 {
                        violations.push(("c20.panic".into(), q[2].parse().unwrap_or(0), q[3].parse().unwrap_or(0), q[4].parse().unwrap_or(0), q[7].to_string()));
                    }
                    last_begin = None;
                }
                Some("H") => {}
                Some("DONE") => done = true,
                _ => {}
            }
        }
        if !status.success() || !done {
            match last_begin {
                Some((_seq, img, fi, k, kind)) => {
                    // confirm alone
                    let out2 = dir.join(format!("confirm{}.log", w));
                    let _ = std::fs::remove_file(&out2);
                    let mut c2 = spawn_worker(&exe, &a, Some((img, fi, k)), (0, 1), &out2);
                    let st2 = c2.wait().expect("wait confirm");
                    let mut e2 = String::new();
                    if let Some(mut e) = c2.stderr.take() {
                        let _ = e.read_to_string(&mut e2);
                    }
                    if !st2.success() {
                        let what = if st2.code() == Some(3) { "c20.hang" } else if e2.contains("memory allocation of") { "c20.oversized_allocation" } else { "c20.abort" };
                        let tail: String = e2.lines().rev().take(3).collect::<Vec<_>>().join(" / ");
                        violations.push((what.into(), img, fi, k, format!("{} fault; worker exit {:?}; stderr: {}", kind, st2.code(), tail)));
                    } else {
                        eprintln!("HARNESS-ERROR: worker {} died ({:?}) in case img={} fmt={} fault={} but the case passes alone; stderr: {}", w, status.code(), img, fi, k, stderr.lines().last().unwrap_or(""));
                        harness_err = true;
                    }
                    // the rest of this worker's slice is lost for this batch; say so
                    eprintln!("note: worker {} stopped early; its remaining cases were not executed", w);
                }
                None => {
                    eprintln!("HARNESS-ERROR: worker {} exited with {:?} outside a case; stderr: {}", w, status.code(), stderr.lines().last().unwrap_or(""));
                    harness_err = true;
                }
            }
        }
    }
    let _ = std::fs::remove_dir_all(&dir);
    let mut exit = 0;
    violations.sort_by(|a, b| (a.1, a.2, a.3).cmp(&(b.1, b.2, b.3)));
    // one replay per distinct (oracle, first words of the detail): the lowest case of each
    let mut seen: BTreeSet<String> = BTreeSet::new();
    for (what, img, fi, k, detail) in &violations {
        let key = format!("{}|{}", what, detail.split(" at ").last().unwrap_or("").chars().take(80).collect::<String>());
        if !seen.insert(key) || seen.len() > 5 {
            continue;
        }
        let p = write_replay(seed, *img, *fi, *k, thorough, what, detail);
        println!("oracle={} image={} format={} fault_no={} detail={}", what, img, fi, k, detail.chars().take(300).collect::<String>());
        println!("VIOLATION property=C20 replay={}", p.display());
        exit = 1;
    }
    if harness_err && exit == 0 {
        exit = 2;
    }
    let wall = start.elapsed().as_secs_f64();
    let cov = serde_json::json!({
        "evaluations": cases,
        "distinct_nontrivial": sigs.len(),
        "rule": "each case = (seeded valid image in one of 4 formats, one seeded fault); truncation is exhaustive over every offset for images <= 8 KiB; a case is non-trivial when a loader was actually invoked on the damaged bytes; distinct = distinct (format, fault kind, per-loader outcome vector)",
        "samples": samples,
        "images": images,
        "formats": ["binary", "compressed", "json", "sql"],
        "fault_kinds_fired": by_fault,
        "loader_outcomes": by_loader,
        "cases_per_hour": (cases as f64 / wall.max(0.001) * 3600.0) as u64,
        "exhaustive_truncation_for_images_up_to_bytes": 8192,
        "engine": "filesim",
        "real_vs_stub": {"real": ["vibesql-storage persistence (binary, zstd, JSON codecs, auto-detection)", "vibesql-executor load_sql_dump (parser + executors)"], "stub": ["Read seam: a reader returning short reads and EINTR (binary codec only)"], "real_files": "damaged images are written to /dev/shm and loaded through the path-based API"},
        "known_findings_reported": known_lines,
    });
    let doc = serde_json::json!({
        "property_id": "C20", "tier": tier, "seed": seed, "level": "fault_enumeration", "coverage": cov,
        "assumptions": ["allocation limit per request = 64 MiB + 64 x file length, enforced by a counting GlobalAlloc in the worker (an oversized request aborts the worker and is attributed to the case in flight)", "hang = a single case exceeding 60 s of wall clock in the worker", "images come from INTEGER/VARCHAR histories plus a table covering the other persisted value types"],
        "wall_s": wall, "violations": violations.len(),
    });
    let edir = simcore::evidence::verif_root().join("evidence");
    let _ = std::fs::create_dir_all(&edir);
    std::fs::write(edir.join("C20.json"), serde_json::to_string_pretty(&doc).unwrap()).expect("write evidence");
    println!("cases={} distinct={} violations={} wall={:.1}s", cases, sigs.len(), violations.len(), wall);
    exit
}

/// Replay one damaged image in a subprocess. Returns 1 if it still violates.
fn replay(path: &str, quiet: bool) -> i32 {
    let text = match std::fs::read_to_string(path) {
        Ok(t) => t,
        Err(e) => {
            eprintln!("HARNESS-ERROR: cannot read {}: {}", path, e);
            return 2;
        }
    };
    let doc: serde_json::Value = match serde_json::from_str(&text) {
        Ok(d) => d,
        Err(e) => {
            eprintln!("HARNESS-ERROR: cannot parse {}: {}", path, e);
            return 2;
        }
    };
    let exe = std::env::current_exe().expect("exe");
    let st = std::process::Command::new(exe).arg("replay-inner").arg(path).stdout(std::process::Stdio::piped()).stderr(std::process::Stdio::piped()).output().expect("spawn");
    let out = String::from_utf8_lossy(&st.stdout);
    let violated = !st.status.success() || out.contains("PANIC");
    if !quiet {
        print!("{}", out);
        if violated {
            println!("exit={:?} stderr={}", st.status.code(), String::from_utf8_lossy(&st.stderr).lines().last().unwrap_or(""));
            println!("VIOLATION property={} replay={}", doc["property"].as_str().unwrap_or("C20"), path);
        } else {
            println!("no violation on replay");
        }
    }
    if violated {
        1
    } else {
        0
    }
}

fn replay_inner(path: &str) -> i32 {
    simcore::runner::install_panic_hook();
    let doc: serde_json::Value = serde_json::from_str(&std::fs::read_to_string(path).expect("read")).expect("json");
    let bytes = unhex(doc["damaged_hex"].as_str().unwrap_or(""));
    let fmt = match doc["format"].as_str().unwrap_or("binary") {
        "compressed" => Fmt::Compressed,
        "json" => Fmt::Json,
        "sql" => Fmt::Sql,
        _ => Fmt::Binary,
    };
    let dir = tmp_dir();
    std::thread::spawn(|| {
        std::thread::sleep(std::time::Duration::from_secs(60));
        println!("HANG");
        std::process::exit(3);
    });
    let r = run_loaders(fmt, &bytes, &dir, 1, true);
    let _ = std::fs::remove_dir_all(&dir);
    for (l, o) in &r.loaders {
        println!("  {} -> {}", l, o);
    }
    if let Some(p) = r.panic {
        println!("PANIC {}", p);
        return 1;
    }
    0
}

fn main() {
    let args: Vec<String> = std::env::args().collect();
    let code = match args.get(1).map(|s| s.as_str()) {
        Some("check") => check(&args),
        Some("worker") => {
            let slice = arg(&args, "--slice").unwrap_or_else(|| "0/1".into());
            let sp: Vec<u64> = slice.split('/').map(|x| x.parse().unwrap_or(0)).collect();
            let only = arg(&args, "--only").map(|s| {
                let v: Vec<usize> = s.split(',').map(|x| x.parse().unwrap_or(0)).collect();
                (v[0] as u64, v[1], v[2])
            });
            let a = Args {
                seed: arg(&args, "--seed").and_then(|s| s.parse().ok()).unwrap_or(1),
                images: arg(&args, "--images").and_then(|s| s.parse().ok()).unwrap_or(1),
                thorough: args.iter().any(|x| x == "--thorough"),
                slice: (sp[0], sp[1].max(1)),
                out: PathBuf::from(arg(&args, "--out").expect("--out")),
                only,
            };
            worker(&a)
        }
        Some("replay") => replay(args.get(2).expect("replay <file>"), false),
        Some("replay-inner") => replay_inner(args.get(2).expect("file")),
        _ => {
            eprintln!("usage: filesim check [--tier quick|thorough] [--images N] | replay <file>");
            2
        }
    };
    std::process::exit(code);
}
