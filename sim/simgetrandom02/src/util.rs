#![allow(dead_code)]
use core::{mem::MaybeUninit, ptr};

/// Polyfill for `maybe_uninit_slice` feature's
/// `MaybeUninit::slice_assume_init_mut`. Every element of `slice` must have
/// been initialized.
#[inline(always)]
pub unsafe fn slice_assume_init_mut<T>(slice: &mut [MaybeUninit<T>]) -> &mut [T] {
    // SAFETY: `MaybeUninit<T>` is guaranteed to be layout-compatible with `T`.
    &mut *(slice as *mut [MaybeUninit<T>] as *mut [T])
}

#[inline]
pub fn uninit_slice_fill_zero(slice: &mut [MaybeUninit<u8>]) -> &mut [u8] {
    unsafe { ptr::write_bytes(slice.as_mut_ptr(), 0, slice.len()) };
    unsafe { slice_assume_init_mut(slice) }
}

#[inline(always)]
pub fn slice_as_uninit<T>(slice: &[T]) -> &[MaybeUninit<T>] {
    // SAFETY: `MaybeUninit<T>` is guaranteed to be layout-compatible with `T`.
    // There is no risk of writing a `MaybeUninit<T>` into the result since
    // the result isn't mutable.
    unsafe { &*(slice as *const [T] as *const [MaybeUninit<T>]) }
}

/// View an mutable initialized array as potentially-uninitialized.
///
/// This is unsafe because it allows assigning uninitialized values into
/// `slice`, which would be undefined behavior.
#[inline(always)]
pub unsafe fn slice_as_uninit_mut<T>(slice: &mut [T]) -> &mut [MaybeUninit<T>] {
    // SAFETY: `MaybeUninit<T>` is guaranteed to be layout-compatible with `T`.
    &mut *(slice as *mut [T] as *mut [MaybeUninit<T>])
}
