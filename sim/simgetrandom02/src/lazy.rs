use core::sync::atomic::{AtomicUsize, Ordering::Relaxed};

// This structure represents a lazily initialized static usize value. Useful
// when it is preferable to just rerun initialization instead of locking.
// unsync_init will invoke an init() function until it succeeds, then return the
// cached value for future calls.
//
// unsync_init supports init() "failing". If the init() method returns UNINIT,
// that value will be returned as normal, but will not be cached.
//
// Users should only depend on the _value_ returned by init() functions.
// Specifically, for the following init() function:
//      fn init() -> usize {
//          a();
//          let v = b();
//          c();
//          v
//      }
// the effects of c() or writes to shared memory will not necessarily be
// observed and additional synchronization methods may be needed.
pub(crate) struct LazyUsize(AtomicUsize);

impl LazyUsize {
    pub const fn new() -> Self {
        Self(AtomicUsize::new(Self::UNINIT))
    }

    // The initialization is not completed.
    pub const UNINIT: usize = usize::max_value();

    // Runs the init() function at most once, returning the value of some run of
    // init(). Multiple callers can run their init() functions in parallel.
    // init() should always return the same value, if it succeeds.
    pub fn unsync_init(&self, init: impl FnOnce() -> usize) -> usize {
        // Relaxed ordering is fine, as we only have a single atomic variable.
        let mut val = self.0.load(Relaxed);
        if val == Self::UNINIT {
            val = init();
            self.0.store(val, Relaxed);
        }
        val
    }
}

// Identical to LazyUsize except with bool instead of usize.
pub(crate) struct LazyBool(LazyUsize);

impl LazyBool {
    pub const fn new() -> Self {
        Self(LazyUsize::new())
    }

    pub fn unsync_init(&self, init: impl FnOnce() -> bool) -> bool {
        self.0.unsync_init(|| init() as usize) != 0
    }
}
