//! Implementation for ESP-IDF
use crate::Error;
use core::{ffi::c_void, mem::MaybeUninit};

extern "C" {
    fn esp_fill_random(buf: *mut c_void, len: usize) -> u32;
}

pub fn getrandom_inner(dest: &mut [MaybeUninit<u8>]) -> Result<(), Error> {
    // Not that NOT enabling WiFi, BT, or the voltage noise entropy source (via `bootloader_random_enable`)
    // will cause ESP-IDF to return pseudo-random numbers based on the voltage noise entropy, after the initial boot process:
    // https://docs.espressif.com/projects/esp-idf/en/latest/esp32/api-reference/system/random.html
    //
    // However tracking if some of these entropy sources is enabled is way too difficult to implement here
    unsafe { esp_fill_random(dest.as_mut_ptr().cast(), dest.len()) };

    Ok(())
}
