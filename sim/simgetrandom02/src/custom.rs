//! An implementation which calls out to an externally defined function.
use crate::{util::uninit_slice_fill_zero, Error};
use core::{mem::MaybeUninit, num::NonZeroU32};

/// Register a function to be invoked by `getrandom` on unsupported targets.
///
/// ## Writing a custom `getrandom` implementation
///
/// The function to register must have the same signature as
/// [`getrandom::getrandom`](crate::getrandom). The function can be defined
/// wherever you want, either in root crate or a dependent crate.
///
/// For example, if we wanted a `failure-getrandom` crate containing an
/// implementation that always fails, we would first depend on `getrandom`
/// (for the [`Error`] type) in `failure-getrandom/Cargo.toml`:
/// ```toml
/// [dependencies]
/// getrandom = "0.2"
/// ```
/// Note that the crate containing this function does **not** need to enable the
/// `"custom"` Cargo feature.
///
/// Next, in `failure-getrandom/src/lib.rs`, we define our function:
/// ```rust
/// use core::num::NonZeroU32;
/// use getrandom::Error;
///
/// // Some application-specific error code
/// const MY_CUSTOM_ERROR_CODE: u32 = Error::CUSTOM_START + 42;
/// pub fn always_fail(buf: &mut [u8]) -> Result<(), Error> {
///     let code = NonZeroU32::new(MY_CUSTOM_ERROR_CODE).unwrap();
///     Err(Error::from(code))
/// }
/// ```
///
/// ## Registering a custom `getrandom` implementation
///
/// Functions can only be registered in the root binary crate. Attempting to
/// register a function in a non-root crate will result in a linker error.
/// This is similar to
/// [`#[panic_handler]`](https://doc.rust-lang.org/nomicon/panic-handler.html) or
/// [`#[global_allocator]`](https://doc.rust-lang.org/edition-guide/rust-2018/platform-and-target-support/global-allocators.html),
/// where helper crates define handlers/allocators but only the binary crate
/// actually _uses_ the functionality.
///
/// To register the function, we first depend on `failure-getrandom` _and_
/// `getrandom` in `Cargo.toml`:
/// ```toml
/// [dependencies]
/// failure-getrandom = "0.1"
/// getrandom = { version = "0.2", features = ["custom"] }
/// ```
///
/// Then, we register the function in `src/main.rs`:
/// ```rust
/// # mod failure_getrandom { pub fn always_fail(_: &mut [u8]) -> Result<(), getrandom::Error> { unimplemented!() } }
/// use failure_getrandom::always_fail;
/// use getrandom::register_custom_getrandom;
///
/// register_custom_getrandom!(always_fail);
/// ```
///
/// Now any user of `getrandom` (direct or indirect) on this target will use the
/// registered function. As noted in the
/// [top-level documentation](index.html#custom-implementations) this
/// registration only has an effect on unsupported targets.
#[macro_export]
macro_rules! register_custom_getrandom {
    ($path:path) => {
        // TODO(MSRV 1.37): change to unnamed block
        const __GETRANDOM_INTERNAL: () = {
            // We use Rust ABI to be safe against potential panics in the passed function.
            #[no_mangle]
            unsafe fn __getrandom_custom(dest: *mut u8, len: usize) -> u32 {
                // Make sure the passed function has the type of getrandom::getrandom
                type F = fn(&mut [u8]) -> ::core::result::Result<(), $crate::Error>;
                let _: F = $crate::getrandom;
                let f: F = $path;
                let slice = ::core::slice::from_raw_parts_mut(dest, len);
                match f(slice) {
                    Ok(()) => 0,
                    Err(e) => e.code().get(),
                }
            }
        };
    };
}

#[allow(dead_code)]
pub fn getrandom_inner(dest: &mut [MaybeUninit<u8>]) -> Result<(), Error> {
    extern "Rust" {
        fn __getrandom_custom(dest: *mut u8, len: usize) -> u32;
    }
    // Previously we always passed a valid, initialized slice to
    // `__getrandom_custom`. Ensure `dest` has been initialized for backward
    // compatibility with implementations that rely on that (e.g. Rust
    // implementations that construct a `&mut [u8]` slice from `dest` and
    // `len`).
    let dest = uninit_slice_fill_zero(dest);
    let ret = unsafe { __getrandom_custom(dest.as_mut_ptr(), dest.len()) };
    match NonZeroU32::new(ret) {
        None => Ok(()),
        Some(code) => Err(Error::from(code)),
    }
}
