//! Implementation for SOLID
use crate::Error;
use core::{mem::MaybeUninit, num::NonZeroU32};

extern "C" {
    pub fn SOLID_RNG_SampleRandomBytes(buffer: *mut u8, length: usize) -> i32;
}

pub fn getrandom_inner(dest: &mut [MaybeUninit<u8>]) -> Result<(), Error> {
    let ret = unsafe { SOLID_RNG_SampleRandomBytes(dest.as_mut_ptr() as *mut u8, dest.len()) };
    if ret >= 0 {
        Ok(())
    } else {
        // ITRON error numbers are always negative, so we negate it so that it
        // falls in the dedicated OS error range (1..INTERNAL_START).
        Err(NonZeroU32::new((-ret) as u32).unwrap().into())
    }
}
