use core::{fmt, num::NonZeroU32};

/// A small and `no_std` compatible error type
///
/// The [`Error::raw_os_error()`] will indicate if the error is from the OS, and
/// if so, which error code the OS gave the application. If such an error is
/// encountered, please consult with your system documentation.
///
/// Internally this type is a NonZeroU32, with certain values reserved for
/// certain purposes, see [`Error::INTERNAL_START`] and [`Error::CUSTOM_START`].
///
/// *If this crate's `"std"` Cargo feature is enabled*, then:
/// - [`getrandom::Error`][Error] implements
///   [`std::error::Error`](https://doc.rust-lang.org/std/error/trait.Error.html)
/// - [`std::io::Error`](https://doc.rust-lang.org/std/io/struct.Error.html) implements
///   [`From<getrandom::Error>`](https://doc.rust-lang.org/std/convert/trait.From.html).
#[derive(Copy, Clone, Eq, PartialEq)]
pub struct Error(NonZeroU32);

const fn internal_error(n: u16) -> Error {
    // SAFETY: code > 0 as INTERNAL_START > 0 and adding n won't overflow a u32.
    let code = Error::INTERNAL_START + (n as u32);
    Error(unsafe { NonZeroU32::new_unchecked(code) })
}

impl Error {
    /// This target/platform is not supported by `getrandom`.
    pub const UNSUPPORTED: Error = internal_error(0);
    /// The platform-specific `errno` returned a non-positive value.
    pub const ERRNO_NOT_POSITIVE: Error = internal_error(1);
    /// Encountered an unexpected situation which should not happen in practice.
    pub const UNEXPECTED: Error = internal_error(2);
    /// Call to [`CCRandomGenerateBytes`](https://opensource.apple.com/source/CommonCrypto/CommonCrypto-60074/include/CommonRandom.h.auto.html) failed
    /// on iOS, tvOS, or waatchOS.
    // TODO: Update this constant name in the next breaking release.
    pub const IOS_SEC_RANDOM: Error = internal_error(3);
    /// Call to Windows [`RtlGenRandom`](https://docs.microsoft.com/en-us/windows/win32/api/ntsecapi/nf-ntsecapi-rtlgenrandom) failed.
    pub const WINDOWS_RTL_GEN_RANDOM: Error = internal_error(4);
    /// RDRAND instruction failed due to a hardware issue.
    pub const FAILED_RDRAND: Error = internal_error(5);
    /// RDRAND instruction unsupported on this target.
    pub const NO_RDRAND: Error = internal_error(6);
    /// The environment does not support the Web Crypto API.
    pub const WEB_CRYPTO: Error = internal_error(7);
    /// Calling Web Crypto API `crypto.getRandomValues` failed.
    pub const WEB_GET_RANDOM_VALUES: Error = internal_error(8);
    /// On VxWorks, call to `randSecure` failed (random number generator is not yet initialized).
    pub const VXWORKS_RAND_SECURE: Error = internal_error(11);
    /// Node.js does not have the `crypto` CommonJS module.
    pub const NODE_CRYPTO: Error = internal_error(12);
    /// Calling Node.js function `crypto.randomFillSync` failed.
    pub const NODE_RANDOM_FILL_SYNC: Error = internal_error(13);
    /// Called from an ES module on Node.js. This is unsupported, see:
    /// <https://docs.rs/getrandom#nodejs-es-module-support>.
    pub const NODE_ES_MODULE: Error = internal_error(14);

    /// Codes below this point represent OS Errors (i.e. positive i32 values).
    /// Codes at or above this point, but below [`Error::CUSTOM_START`] are
    /// reserved for use by the `rand` and `getrandom` crates.
    pub const INTERNAL_START: u32 = 1 << 31;

    /// Codes at or above this point can be used by users to define their own
    /// custom errors.
    pub const CUSTOM_START: u32 = (1 << 31) + (1 << 30);

    /// Extract the raw OS error code (if this error came from the OS)
    ///
    /// This method is identical to [`std::io::Error::raw_os_error()`][1], except
    /// that it works in `no_std` contexts. If this method returns `None`, the
    /// error value can still be formatted via the `Display` implementation.
    ///
    /// [1]: https://doc.rust-lang.org/std/io/struct.Error.html#method.raw_os_error
    #[inline]
    pub fn raw_os_error(self) -> Option<i32> {
        if self.0.get() < Self::INTERNAL_START {
            match () {
                #[cfg(target_os = "solid_asp3")]
                // On SOLID, negate the error code again to obtain the original
                // error code.
                () => Some(-(self.0.get() as i32)),
                #[cfg(not(target_os = "solid_asp3"))]
                () => Some(self.0.get() as i32),
            }
        } else {
            None
        }
    }

    /// Extract the bare error code.
    ///
    /// This code can either come from the underlying OS, or be a custom error.
    /// Use [`Error::raw_os_error()`] to disambiguate.
    #[inline]
    pub const fn code(self) -> NonZeroU32 {
        self.0
    }
}

cfg_if! {
    if #[cfg(unix)] {
        fn os_err(errno: i32, buf: &mut [u8]) -> Option<&str> {
            let buf_ptr = buf.as_mut_ptr() as *mut libc::c_char;
            if unsafe { libc::strerror_r(errno, buf_ptr, buf.len()) } != 0 {
                return None;
            }

            // Take up to trailing null byte
            let n = buf.len();
            let idx = buf.iter().position(|&b| b == 0).unwrap_or(n);
            core::str::from_utf8(&buf[..idx]).ok()
        }
    } else {
        fn os_err(_errno: i32, _buf: &mut [u8]) -> Option<&str> {
            None
        }
    }
}

impl fmt::Debug for Error {
    fn fmt(&self, f: &mut fmt::Formatter<'_>) -> fmt::Result {
        let mut dbg = f.debug_struct("Error");
        if let Some(errno) = self.raw_os_error() {
            dbg.field("os_error", &errno);
            let mut buf = [0u8; 128];
            if let Some(err) = os_err(errno, &mut buf) {
                dbg.field("description", &err);
            }
        } else if let Some(desc) = internal_desc(*self) {
            dbg.field("internal_code", &self.0.get());
            dbg.field("description", &desc);
        } else {
            dbg.field("unknown_code", &self.0.get());
        }
        dbg.finish()
    }
}

impl fmt::Display for Error {
    fn fmt(&self, f: &mut fmt::Formatter<'_>) -> fmt::Result {
        if let Some(errno) = self.raw_os_error() {
            let mut buf = [0u8; 128];
            match os_err(errno, &mut buf) {
                Some(err) => err.fmt(f),
                None => write!(f, "OS Error: {}", errno),
            }
        } else if let Some(desc) = internal_desc(*self) {
            f.write_str(desc)
        } else {
            write!(f, "Unknown Error: {}", self.0.get())
        }
    }
}

impl From<NonZeroU32> for Error {
    fn from(code: NonZeroU32) -> Self {
        Self(code)
    }
}

fn internal_desc(error: Error) -> Option<&'static str> {
    match error {
        Error::UNSUPPORTED => Some("getrandom: this target is not supported"),
        Error::ERRNO_NOT_POSITIVE => Some("errno: did not return a positive value"),
        Error::UNEXPECTED => Some("unexpected situation"),
        Error::IOS_SEC_RANDOM => Some("SecRandomCopyBytes: iOS Security framework failure"),
        Error::WINDOWS_RTL_GEN_RANDOM => Some("RtlGenRandom: Windows system function failure"),
        Error::FAILED_RDRAND => Some("RDRAND: failed multiple times: CPU issue likely"),
        Error::NO_RDRAND => Some("RDRAND: instruction not supported"),
        Error::WEB_CRYPTO => Some("Web Crypto API is unavailable"),
        Error::WEB_GET_RANDOM_VALUES => Some("Calling Web API crypto.getRandomValues failed"),
        Error::VXWORKS_RAND_SECURE => Some("randSecure: VxWorks RNG module is not initialized"),
        Error::NODE_CRYPTO => Some("Node.js crypto CommonJS module is unavailable"),
        Error::NODE_RANDOM_FILL_SYNC => Some("Calling Node.js API crypto.randomFillSync failed"),
        Error::NODE_ES_MODULE => Some("Node.js ES modules are not directly supported, see https://docs.rs/getrandom#nodejs-es-module-support"),
        _ => None,
    }
}

#[cfg(test)]
mod tests {
    use super::Error;
    use core::mem::size_of;

    #[test]
    fn test_size() {
        assert_eq!(size_of::<Error>(), 4);
        assert_eq!(size_of::<Result<(), Error>>(), 4);
    }
}
