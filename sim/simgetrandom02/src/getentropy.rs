//! Implementation using getentropy(2)
//!
//! Available since:
//!   - macOS 10.12
//!   - OpenBSD 5.6
//!   - Emscripten 2.0.5
//!   - vita newlib since Dec 2021
//!
//! For these targets, we use getentropy(2) because getrandom(2) doesn't exist.
use crate::{util_libc::last_os_error, Error};
use core::mem::MaybeUninit;

pub fn getrandom_inner(dest: &mut [MaybeUninit<u8>]) -> Result<(), Error> {
    for chunk in dest.chunks_mut(256) {
        let ret = unsafe { libc::getentropy(chunk.as_mut_ptr() as *mut libc::c_void, chunk.len()) };
        if ret != 0 {
            return Err(last_os_error());
        }
    }
    Ok(())
}
