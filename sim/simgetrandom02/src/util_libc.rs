#![allow(dead_code)]
use crate::Error;
use core::{
    mem::MaybeUninit,
    num::NonZeroU32,
    ptr::NonNull,
    sync::atomic::{fence, AtomicPtr, Ordering},
};
use libc::c_void;

cfg_if! {
    if #[cfg(any(target_os = "netbsd", target_os = "openbsd", target_os = "android", target_os = "cygwin"))] {
        use libc::__errno as errno_location;
    } else if #[cfg(any(target_os = "linux", target_os = "emscripten", target_os = "hurd", target_os = "redox", target_os = "dragonfly"))] {
        use libc::__errno_location as errno_location;
    } else if #[cfg(any(target_os = "solaris", target_os = "illumos"))] {
        use libc::___errno as errno_location;
    } else if #[cfg(any(target_os = "macos", target_os = "freebsd"))] {
        use libc::__error as errno_location;
    } else if #[cfg(target_os = "haiku")] {
        use libc::_errnop as errno_location;
    } else if #[cfg(target_os = "nto")] {
        use libc::__get_errno_ptr as errno_location;
    } else if #[cfg(any(all(target_os = "horizon", target_arch = "arm"), target_os = "vita"))] {
        extern "C" {
            // Not provided by libc: https://github.com/rust-lang/libc/issues/1995
            fn __errno() -> *mut libc::c_int;
        }
        use __errno as errno_location;
    } else if #[cfg(target_os = "aix")] {
        use libc::_Errno as errno_location;
    }
}

cfg_if! {
    if #[cfg(target_os = "vxworks")] {
        use libc::errnoGet as get_errno;
    } else {
        unsafe fn get_errno() -> libc::c_int { *errno_location() }
    }
}

pub fn last_os_error() -> Error {
    let errno = unsafe { get_errno() };
    if errno > 0 {
        Error::from(NonZeroU32::new(errno as u32).unwrap())
    } else {
        Error::ERRNO_NOT_POSITIVE
    }
}

// Fill a buffer by repeatedly invoking a system call. The `sys_fill` function:
//   - should return -1 and set errno on failure
//   - should return the number of bytes written on success
pub fn sys_fill_exact(
    mut buf: &mut [MaybeUninit<u8>],
    sys_fill: impl Fn(&mut [MaybeUninit<u8>]) -> libc::ssize_t,
) -> Result<(), Error> {
    while !buf.is_empty() {
        let res = sys_fill(buf);
        match res {
            res if res > 0 => buf = buf.get_mut(res as usize..).ok_or(Error::UNEXPECTED)?,
            -1 => {
                let err = last_os_error();
                // We should try again if the call was interrupted.
                if err.raw_os_error() != Some(libc::EINTR) {
                    return Err(err);
                }
            }
            // Negative return codes not equal to -1 should be impossible.
            // EOF (ret = 0) should be impossible, as the data we are reading
            // should be an infinite stream of random bytes.
            _ => return Err(Error::UNEXPECTED),
        }
    }
    Ok(())
}

// A "weak" binding to a C function that may or may not be present at runtime.
// Used for supporting newer OS features while still building on older systems.
// Based off of the DlsymWeak struct in libstd:
// https://github.com/rust-lang/rust/blob/1.61.0/library/std/src/sys/unix/weak.rs#L84
// except that the caller must manually cast self.ptr() to a function pointer.
pub struct Weak {
    name: &'static str,
    addr: AtomicPtr<c_void>,
}

impl Weak {
    // A non-null pointer value which indicates we are uninitialized. This
    // constant should ideally not be a valid address of a function pointer.
    // However, if by chance libc::dlsym does return UNINIT, there will not
    // be undefined behavior. libc::dlsym will just be called each time ptr()
    // is called. This would be inefficient, but correct.
    // TODO: Replace with core::ptr::invalid_mut(1) when that is stable.
    const UNINIT: *mut c_void = 1 as *mut c_void;

    // Construct a binding to a C function with a given name. This function is
    // unsafe because `name` _must_ be null terminated.
    pub const unsafe fn new(name: &'static str) -> Self {
        Self {
            name,
            addr: AtomicPtr::new(Self::UNINIT),
        }
    }

    // Return the address of a function if present at runtime. Otherwise,
    // return None. Multiple callers can call ptr() concurrently. It will
    // always return _some_ value returned by libc::dlsym. However, the
    // dlsym function may be called multiple times.
    pub fn ptr(&self) -> Option<NonNull<c_void>> {
        // Despite having only a single atomic variable (self.addr), we still
        // cannot always use Ordering::Relaxed, as we need to make sure a
        // successful call to dlsym() is "ordered before" any data read through
        // the returned pointer (which occurs when the function is called).
        // Our implementation mirrors that of the one in libstd, meaning that
        // the use of non-Relaxed operations is probably unnecessary.
        match self.addr.load(Ordering::Relaxed) {
            Self::UNINIT => {
                let symbol = self.name.as_ptr() as *const _;
                let addr = unsafe { libc::dlsym(libc::RTLD_DEFAULT, symbol) };
                // Synchronizes with the Acquire fence below
                self.addr.store(addr, Ordering::Release);
                NonNull::new(addr)
            }
            addr => {
                let func = NonNull::new(addr)?;
                fence(Ordering::Acquire);
                Some(func)
            }
        }
    }
}

// SAFETY: path must be null terminated, FD must be manually closed.
pub unsafe fn open_readonly(path: &str) -> Result<libc::c_int, Error> {
    debug_assert_eq!(path.as_bytes().last(), Some(&0));
    loop {
        let fd = libc::open(path.as_ptr() as *const _, libc::O_RDONLY | libc::O_CLOEXEC);
        if fd >= 0 {
            return Ok(fd);
        }
        let err = last_os_error();
        // We should try again if open() was interrupted.
        if err.raw_os_error() != Some(libc::EINTR) {
            return Err(err);
        }
    }
}

/// Thin wrapper around the `getrandom()` Linux system call
#[cfg(any(target_os = "android", target_os = "linux"))]
pub fn getrandom_syscall(buf: &mut [MaybeUninit<u8>]) -> libc::ssize_t {
    unsafe {
        // /verif stand-in: the libc *function* instead of the raw system call, so that the harness binary's own
        // `getrandom` symbol (simcore::define_getrandom!, a seeded per-thread stream) serves this crate too
        libc::getrandom(buf.as_mut_ptr() as *mut libc::c_void, buf.len(), 0)
    }
}
