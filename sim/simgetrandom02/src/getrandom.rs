//! Implementation using getrandom(2).
//!
//! Available since:
//!   - Linux Kernel 3.17, Glibc 2.25, Musl 1.1.20
//!   - Android API level 23 (Marshmallow)
//!   - NetBSD 10.0
//!   - FreeBSD 12.0
//!   - illumos since Dec 2018
//!   - DragonFly 5.7
//!   - Hurd Glibc 2.31
//!   - shim-3ds since Feb 2022
//!
//! For these platforms, we always use the default pool and never set the
//! GRND_RANDOM flag to use the /dev/random pool. On Linux/Android/Hurd, using
//! GRND_RANDOM is not recommended. On NetBSD/FreeBSD/Dragonfly/3ds, it does
//! nothing. On illumos, the default pool is used to implement getentropy(2),
//! so we assume it is acceptable here.
use crate::{util_libc::sys_fill_exact, Error};
use core::mem::MaybeUninit;

pub fn getrandom_inner(dest: &mut [MaybeUninit<u8>]) -> Result<(), Error> {
    sys_fill_exact(dest, |buf| unsafe {
        libc::getrandom(buf.as_mut_ptr() as *mut libc::c_void, buf.len(), 0)
    })
}
