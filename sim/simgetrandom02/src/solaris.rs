//! Solaris implementation using getrandom(2).
//!
//! While getrandom(2) has been available since Solaris 11.3, it has a few
//! quirks not present on other OSes. First, on Solaris 11.3, calls will always
//! fail if bufsz > 1024. Second, it will always either fail or completely fill
//! the buffer (returning bufsz). Third, error is indicated by returning 0,
//! rather than by returning -1. Finally, "if GRND_RANDOM is not specified
//! then getrandom(2) is always a non blocking call". This _might_ imply that
//! in early-boot scenarios with low entropy, getrandom(2) will not properly
//! block. To be safe, we set GRND_RANDOM, mirroring the man page examples.
//!
//! For more information, see the man page linked in lib.rs and this blog post:
//! https://blogs.oracle.com/solaris/post/solaris-new-system-calls-getentropy2-and-getrandom2
//! which also explains why this crate should not use getentropy(2).
use crate::{util_libc::last_os_error, Error};
use core::mem::MaybeUninit;

const MAX_BYTES: usize = 1024;

pub fn getrandom_inner(dest: &mut [MaybeUninit<u8>]) -> Result<(), Error> {
    for chunk in dest.chunks_mut(MAX_BYTES) {
        let ptr = chunk.as_mut_ptr() as *mut libc::c_void;
        let ret = unsafe { libc::getrandom(ptr, chunk.len(), libc::GRND_RANDOM) };
        // In case the man page has a typo, we also check for negative ret.
        if ret <= 0 {
            return Err(last_os_error());
        }
        // If getrandom(2) succeeds, it should have completely filled chunk.
        if (ret as usize) != chunk.len() {
            return Err(Error::UNEXPECTED);
        }
    }
    Ok(())
}
