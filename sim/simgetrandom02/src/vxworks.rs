//! Implementation for VxWorks
use crate::{util_libc::last_os_error, Error};
use core::{
    mem::MaybeUninit,
    sync::atomic::{AtomicBool, Ordering::Relaxed},
};

pub fn getrandom_inner(dest: &mut [MaybeUninit<u8>]) -> Result<(), Error> {
    static RNG_INIT: AtomicBool = AtomicBool::new(false);
    while !RNG_INIT.load(Relaxed) {
        let ret = unsafe { libc::randSecure() };
        if ret < 0 {
            return Err(Error::VXWORKS_RAND_SECURE);
        } else if ret > 0 {
            RNG_INIT.store(true, Relaxed);
            break;
        }
        unsafe { libc::usleep(10) };
    }

    // Prevent overflow of i32
    for chunk in dest.chunks_mut(i32::max_value() as usize) {
        let ret = unsafe { libc::randABytes(chunk.as_mut_ptr() as *mut u8, chunk.len() as i32) };
        if ret != 0 {
            return Err(last_os_error());
        }
    }
    Ok(())
}
