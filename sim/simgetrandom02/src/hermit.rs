//! Implementation for Hermit
use crate::Error;
use core::{mem::MaybeUninit, num::NonZeroU32};

/// Minimum return value which we should get from syscalls in practice,
/// because Hermit uses positive `i32`s for error codes:
/// https://github.com/hermitcore/libhermit-rs/blob/main/src/errno.rs
const MIN_RET_CODE: isize = -(i32::MAX as isize);

extern "C" {
    fn sys_read_entropy(buffer: *mut u8, length: usize, flags: u32) -> isize;
}

pub fn getrandom_inner(mut dest: &mut [MaybeUninit<u8>]) -> Result<(), Error> {
    while !dest.is_empty() {
        let res = unsafe { sys_read_entropy(dest.as_mut_ptr() as *mut u8, dest.len(), 0) };
        // Positive `isize`s can be safely casted to `usize`
        if res > 0 && (res as usize) <= dest.len() {
            dest = &mut dest[res as usize..];
        } else {
            let err = match res {
                MIN_RET_CODE..=-1 => NonZeroU32::new(-res as u32).unwrap().into(),
                _ => Error::UNEXPECTED,
            };
            return Err(err);
        }
    }
    Ok(())
}
