//! Implementations that just need to read from a file
use crate::{
    util_libc::{open_readonly, sys_fill_exact},
    Error,
};
use core::{
    cell::UnsafeCell,
    mem::MaybeUninit,
    sync::atomic::{AtomicUsize, Ordering::Relaxed},
};

/// For all platforms, we use `/dev/urandom` rather than `/dev/random`.
/// For more information see the linked man pages in lib.rs.
///   - On Linux, "/dev/urandom is preferred and sufficient in all use cases".
///   - On Redox, only /dev/urandom is provided.
///   - On AIX, /dev/urandom will "provide cryptographically secure output".
///   - On Haiku and QNX Neutrino they are identical.
const FILE_PATH: &str = "/dev/urandom\0";
const FD_UNINIT: usize = usize::max_value();

pub fn getrandom_inner(dest: &mut [MaybeUninit<u8>]) -> Result<(), Error> {
    let fd = get_rng_fd()?;
    sys_fill_exact(dest, |buf| unsafe {
        libc::read(fd, buf.as_mut_ptr() as *mut libc::c_void, buf.len())
    })
}

// Returns the file descriptor for the device file used to retrieve random
// bytes. The file will be opened exactly once. All subsequent calls will
// return the same file descriptor. This file descriptor is never closed.
fn get_rng_fd() -> Result<libc::c_int, Error> {
    static FD: AtomicUsize = AtomicUsize::new(FD_UNINIT);
    fn get_fd() -> Option<libc::c_int> {
        match FD.load(Relaxed) {
            FD_UNINIT => None,
            val => Some(val as libc::c_int),
        }
    }

    // Use double-checked locking to avoid acquiring the lock if possible.
    if let Some(fd) = get_fd() {
        return Ok(fd);
    }

    // SAFETY: We use the mutex only in this method, and we always unlock it
    // before returning, making sure we don't violate the pthread_mutex_t API.
    static MUTEX: Mutex = Mutex::new();
    unsafe { MUTEX.lock() };
    let _guard = DropGuard(|| unsafe { MUTEX.unlock() });

    if let Some(fd) = get_fd() {
        return Ok(fd);
    }

    // On Linux, /dev/urandom might return insecure values.
    #[cfg(any(target_os = "android", target_os = "linux"))]
    wait_until_rng_ready()?;

    let fd = unsafe { open_readonly(FILE_PATH)? };
    // The fd always fits in a usize without conflicting with FD_UNINIT.
    debug_assert!(fd >= 0 && (fd as usize) < FD_UNINIT);
    FD.store(fd as usize, Relaxed);

    Ok(fd)
}

// Succeeds once /dev/urandom is safe to read from
#[cfg(any(target_os = "android", target_os = "linux"))]
fn wait_until_rng_ready() -> Result<(), Error> {
    // Poll /dev/random to make sure it is ok to read from /dev/urandom.
    let fd = unsafe { open_readonly("/dev/random\0")? };
    let mut pfd = libc::pollfd {
        fd,
        events: libc::POLLIN,
        revents: 0,
    };
    let _guard = DropGuard(|| unsafe {
        libc::close(fd);
    });

    loop {
        // A negative timeout means an infinite timeout.
        let res = unsafe { libc::poll(&mut pfd, 1, -1) };
        if res >= 0 {
            debug_assert_eq!(res, 1); // We only used one fd, and cannot timeout.
            return Ok(());
        }
        let err = crate::util_libc::last_os_error();
        match err.raw_os_error() {
            Some(libc::EINTR) | Some(libc::EAGAIN) => continue,
            _ => return Err(err),
        }
    }
}

struct Mutex(UnsafeCell<libc::pthread_mutex_t>);

impl Mutex {
    const fn new() -> Self {
        Self(UnsafeCell::new(libc::PTHREAD_MUTEX_INITIALIZER))
    }
    unsafe fn lock(&self) {
        let r = libc::pthread_mutex_lock(self.0.get());
        debug_assert_eq!(r, 0);
    }
    unsafe fn unlock(&self) {
        let r = libc::pthread_mutex_unlock(self.0.get());
        debug_assert_eq!(r, 0);
    }
}

unsafe impl Sync for Mutex {}

struct DropGuard<F: FnMut()>(F);

impl<F: FnMut()> Drop for DropGuard<F> {
    fn drop(&mut self) {
        self.0()
    }
}
