//! Implementation for Windows
use crate::Error;
use core::{ffi::c_void, mem::MaybeUninit, num::NonZeroU32, ptr};

const BCRYPT_USE_SYSTEM_PREFERRED_RNG: u32 = 0x00000002;

#[link(name = "bcrypt")]
extern "system" {
    fn BCryptGenRandom(
        hAlgorithm: *mut c_void,
        pBuffer: *mut u8,
        cbBuffer: u32,
        dwFlags: u32,
    ) -> i32;
}

// Forbidden when targetting UWP
#[cfg(not(target_vendor = "uwp"))]
#[link(name = "advapi32")]
extern "system" {
    #[link_name = "SystemFunction036"]
    fn RtlGenRandom(RandomBuffer: *mut c_void, RandomBufferLength: u32) -> u8;
}

pub fn getrandom_inner(dest: &mut [MaybeUninit<u8>]) -> Result<(), Error> {
    // Prevent overflow of u32
    for chunk in dest.chunks_mut(u32::max_value() as usize) {
        // BCryptGenRandom was introduced in Windows Vista
        let ret = unsafe {
            BCryptGenRandom(
                ptr::null_mut(),
                chunk.as_mut_ptr() as *mut u8,
                chunk.len() as u32,
                BCRYPT_USE_SYSTEM_PREFERRED_RNG,
            )
        };
        let ret = ret as u32;
        // NTSTATUS codes use the two highest bits for severity status.
        if ret >> 30 == 0b11 {
            // Failed. Try RtlGenRandom as a fallback.
            #[cfg(not(target_vendor = "uwp"))]
            {
                let ret =
                    unsafe { RtlGenRandom(chunk.as_mut_ptr() as *mut c_void, chunk.len() as u32) };
                if ret != 0 {
                    continue;
                }
            }
            // We zeroize the highest bit, so the error code will reside
            // inside the range designated for OS codes.
            let code = ret ^ (1 << 31);
            // SAFETY: the second highest bit is always equal to one,
            // so it's impossible to get zero. Unfortunately the type
            // system does not have a way to express this yet.
            let code = unsafe { NonZeroU32::new_unchecked(code) };
            return Err(Error::from(code));
        }
    }
    Ok(())
}
