//! Interface to the operating system's random number generator.
//!
//! # Supported targets
//!
//! | Target            | Target Triple      | Implementation
//! | ----------------- | ------------------ | --------------
//! | Linux, Android    | `*‑linux‑*`        | [`getrandom`][1] system call if available, otherwise [`/dev/urandom`][2] after successfully polling `/dev/random`
//! | Windows           | `*‑windows‑*`      | [`BCryptGenRandom`]
//! | macOS             | `*‑apple‑darwin`   | [`getentropy`][3]
//! | iOS, tvOS, watchOS | `*‑apple‑ios`, `*-apple-tvos`, `*-apple-watchos` | [`CCRandomGenerateBytes`]
//! | FreeBSD           | `*‑freebsd`        | [`getrandom`][5]
//! | OpenBSD           | `*‑openbsd`        | [`getentropy`][7]
//! | NetBSD            | `*‑netbsd`         | [`getrandom`][16] if available, otherwise [`kern.arandom`][8]
//! | Dragonfly BSD     | `*‑dragonfly`      | [`getrandom`][9]
//! | Solaris           | `*‑solaris`        | [`getrandom`][11] (with `GRND_RANDOM`)
//! | illumos           | `*‑illumos`        | [`getrandom`][12]
//! | Fuchsia OS        | `*‑fuchsia`        | [`cprng_draw`]
//! | Redox             | `*‑redox`          | `/dev/urandom`
//! | Haiku             | `*‑haiku`          | `/dev/urandom` (identical to `/dev/random`)
//! | Hermit            | `*-hermit`         | [`sys_read_entropy`]
//! | Hurd              | `*-hurd-*`         | [`getrandom`][17]
//! | SGX               | `x86_64‑*‑sgx`     | [`RDRAND`]
//! | VxWorks           | `*‑wrs‑vxworks‑*`  | `randABytes` after checking entropy pool initialization with `randSecure`
//! | ESP-IDF           | `*‑espidf`         | [`esp_fill_random`]
//! | Emscripten        | `*‑emscripten`     | [`getentropy`][13]
//! | WASI              | `wasm32‑wasi`      | [`random_get`]
//! | Web Browser and Node.js | `wasm*‑*‑unknown` | [`Crypto.getRandomValues`] if available, then [`crypto.randomFillSync`] if on Node.js, see [WebAssembly support]
//! | SOLID             | `*-kmc-solid_*`    | `SOLID_RNG_SampleRandomBytes`
//! | Nintendo 3DS      | `*-nintendo-3ds`   | [`getrandom`][18]
//! | PS Vita           | `*-vita-*`         | [`getentropy`][13]
//! | QNX Neutrino      | `*‑nto-qnx*`       | [`/dev/urandom`][14] (identical to `/dev/random`)
//! | AIX               | `*-ibm-aix`        | [`/dev/urandom`][15]
//! | Cygwin            | `*-cygwin`         | [`getrandom`][19] (based on [`RtlGenRandom`])
//!
//! Pull Requests that add support for new targets to `getrandom` are always welcome.
//!
//! ## Unsupported targets
//!
//! By default, `getrandom` will not compile on unsupported targets, but certain
//! features allow a user to select a "fallback" implementation if no supported
//! implementation exists.
//!
//! All of the below mechanisms only affect unsupported
//! targets. Supported targets will _always_ use their supported implementations.
//! This prevents a crate from overriding a secure source of randomness
//! (either accidentally or intentionally).
//!
//! ## `/dev/urandom` fallback on Linux and Android
//!
//! On Linux targets the fallback is present only if either `target_env` is `musl`,
//! or `target_arch` is one of the following: `aarch64`, `arm`, `powerpc`, `powerpc64`,
//! `s390x`, `x86`, `x86_64`. Other supported targets [require][platform-support]
//! kernel versions which support `getrandom` system call, so fallback is not needed.
//!
//! On Android targets the fallback is present only for the following `target_arch`es:
//! `aarch64`, `arm`, `x86`, `x86_64`. Other `target_arch`es (e.g. RISC-V) require
//! sufficiently high API levels.
//!
//! The fallback can be disabled by enabling the `linux_disable_fallback` crate feature.
//! Note that doing so will bump minimum supported Linux kernel version to 3.17 and
//! Android API level to 23 (Marshmallow).
//!
//! ### RDRAND on x86
//!
//! *If the `rdrand` Cargo feature is enabled*, `getrandom` will fallback to using
//! the [`RDRAND`] instruction to get randomness on `no_std` `x86`/`x86_64`
//! targets. This feature has no effect on other CPU architectures.
//!
//! ### WebAssembly support
//!
//! This crate fully supports the
//! [`wasm32-wasi`](https://github.com/CraneStation/wasi) and
//! [`wasm32-unknown-emscripten`](https://www.hellorust.com/setup/emscripten/)
//! targets. However, the `wasm32-unknown-unknown` target (i.e. the target used
//! by `wasm-pack`) is not automatically
//! supported since, from the target name alone, we cannot deduce which
//! JavaScript interface is in use (or if JavaScript is available at all).
//!
//! Instead, *if the `js` Cargo feature is enabled*, this crate will assume
//! that you are building for an environment containing JavaScript, and will
//! call the appropriate methods. Both web browser (main window and Web Workers)
//! and Node.js environments are supported, invoking the methods
//! [described above](#supported-targets) using the [`wasm-bindgen`] toolchain.
//!
//! To enable the `js` Cargo feature, add the following to the `dependencies`
//! section in your `Cargo.toml` file:
//! ```toml
//! [dependencies]
//! getrandom = { version = "0.2", features = ["js"] }
//! ```
//!
//! This can be done even if `getrandom` is not a direct dependency. Cargo
//! allows crates to enable features for indirect dependencies.
//!
//! This feature should only be enabled for binary, test, or benchmark crates.
//! Library crates should generally not enable this feature, leaving such a
//! decision to *users* of their library. Also, libraries should not introduce
//! their own `js` features *just* to enable `getrandom`'s `js` feature.
//!
//! This feature has no effect on targets other than `wasm32-unknown-unknown`.
//!
//! #### Node.js ES module support
//!
//! Node.js supports both [CommonJS modules] and [ES modules]. Due to
//! limitations in wasm-bindgen's [`module`] support, we cannot directly
//! support ES Modules running on Node.js. However, on Node v15 and later, the
//! module author can add a simple shim to support the Web Cryptography API:
//! ```js
//! import { webcrypto } from 'node:crypto'
//! globalThis.crypto = webcrypto
//! ```
//! This crate will then use the provided `webcrypto` implementation.
//!
//! ### Platform Support
//! This crate generally supports the same operating system and platform versions
//! that the Rust standard library does. Additional targets may be supported using
//! pluggable custom implementations.
//!
//! This means that as Rust drops support for old versions of operating systems
//! (such as old Linux kernel versions, Android API levels, etc) in stable releases,
//! `getrandom` may create new patch releases (`0.N.x`) that remove support for
//! outdated platform versions.
//!
//! ### Custom implementations
//!
//! The [`register_custom_getrandom!`] macro allows a user to mark their own
//! function as the backing implementation for [`getrandom`]. See the macro's
//! documentation for more information about writing and registering your own
//! custom implementations.
//!
//! Note that registering a custom implementation only has an effect on targets
//! that would otherwise not compile. Any supported targets (including those
//! using `rdrand` and `js` Cargo features) continue using their normal
//! implementations even if a function is registered.
//!
//! ## Early boot
//!
//! Sometimes, early in the boot process, the OS has not collected enough
//! entropy to securely seed its RNG. This is especially common on virtual
//! machines, where standard "random" events are hard to come by.
//!
//! Some operating system interfaces always block until the RNG is securely
//! seeded. This can take anywhere from a few seconds to more than a minute.
//! A few (Linux, NetBSD and Solaris) offer a choice between blocking and
//! getting an error; in these cases, we always choose to block.
//!
//! On Linux (when the `getrandom` system call is not available), reading from
//! `/dev/urandom` never blocks, even when the OS hasn't collected enough
//! entropy yet. To avoid returning low-entropy bytes, we first poll
//! `/dev/random` and only switch to `/dev/urandom` once this has succeeded.
//!
//! On OpenBSD, this kind of entropy accounting isn't available, and on
//! NetBSD, blocking on it is discouraged. On these platforms, nonblocking
//! interfaces are used, even when reliable entropy may not be available.
//! On the platforms where it is used, the reliability of entropy accounting
//! itself isn't free from controversy. This library provides randomness
//! sourced according to the platform's best practices, but each platform has
//! its own limits on the grade of randomness it can promise in environments
//! with few sources of entropy.
//!
//! ## Error handling
//!
//! We always choose failure over returning known insecure "random" bytes. In
//! general, on supported platforms, failure is highly unlikely, though not
//! impossible. If an error does occur, then it is likely that it will occur
//! on every call to `getrandom`, hence after the first successful call one
//! can be reasonably confident that no errors will occur.
//!
//! [1]: https://manned.org/getrandom.2
//! [2]: https://manned.org/urandom.4
//! [3]: https://www.unix.com/man-page/mojave/2/getentropy/
//! [4]: https://www.unix.com/man-page/mojave/4/urandom/
//! [5]: https://www.freebsd.org/cgi/man.cgi?query=getrandom&manpath=FreeBSD+12.0-stable
//! [7]: https://man.openbsd.org/getentropy.2
//! [8]: https://man.netbsd.org/sysctl.7
//! [9]: https://leaf.dragonflybsd.org/cgi/web-man?command=getrandom
//! [11]: https://docs.oracle.com/cd/E88353_01/html/E37841/getrandom-2.html
//! [12]: https://illumos.org/man/2/getrandom
//! [13]: https://github.com/emscripten-core/emscripten/pull/12240
//! [14]: https://www.qnx.com/developers/docs/7.1/index.html#com.qnx.doc.neutrino.utilities/topic/r/random.html
//! [15]: https://www.ibm.com/docs/en/aix/7.3?topic=files-random-urandom-devices
//! [16]: https://man.netbsd.org/getrandom.2
//! [17]: https://www.gnu.org/software/libc/manual/html_mono/libc.html#index-getrandom
//! [18]: https://github.com/rust3ds/shim-3ds/commit/b01d2568836dea2a65d05d662f8e5f805c64389d
//! [19]: https://github.com/cygwin/cygwin/blob/main/winsup/cygwin/libc/getentropy.cc
//!
//! [`BCryptGenRandom`]: https://docs.microsoft.com/en-us/windows/win32/api/bcrypt/nf-bcrypt-bcryptgenrandom
//! [`RtlGenRandom`]: https://learn.microsoft.com/en-us/windows/win32/api/ntsecapi/nf-ntsecapi-rtlgenrandom
//! [`Crypto.getRandomValues`]: https://www.w3.org/TR/WebCryptoAPI/#Crypto-method-getRandomValues
//! [`RDRAND`]: https://software.intel.com/en-us/articles/intel-digital-random-number-generator-drng-software-implementation-guide
//! [`CCRandomGenerateBytes`]: https://opensource.apple.com/source/CommonCrypto/CommonCrypto-60074/include/CommonRandom.h.auto.html
//! [`cprng_draw`]: https://fuchsia.dev/fuchsia-src/zircon/syscalls/cprng_draw
//! [`crypto.randomFillSync`]: https://nodejs.org/api/crypto.html#cryptorandomfillsyncbuffer-offset-size
//! [`esp_fill_random`]: https://docs.espressif.com/projects/esp-idf/en/latest/esp32/api-reference/system/random.html#_CPPv415esp_fill_randomPv6size_t
//! [`random_get`]: https://github.com/WebAssembly/WASI/blob/main/phases/snapshot/docs.md#-random_getbuf-pointeru8-buf_len-size---errno
//! [WebAssembly support]: #webassembly-support
//! [`wasm-bindgen`]: https://github.com/rustwasm/wasm-bindgen
//! [`module`]: https://rustwasm.github.io/wasm-bindgen/reference/attributes/on-js-imports/module.html
//! [CommonJS modules]: https://nodejs.org/api/modules.html
//! [ES modules]: https://nodejs.org/api/esm.html
//! [`sys_read_entropy`]: https://github.com/hermit-os/kernel/blob/315f58ff5efc81d9bf0618af85a59963ff55f8b1/src/syscalls/entropy.rs#L47-L55
//! [platform-support]: https://doc.rust-lang.org/stable/rustc/platform-support.html

#![doc(
    html_logo_url = "https://www.rust-lang.org/logos/rust-logo-128x128-blk.png",
    html_favicon_url = "https://www.rust-lang.org/favicon.ico",
    html_root_url = "https://docs.rs/getrandom/0.2.17"
)]
#![no_std]
#![warn(rust_2018_idioms, unused_lifetimes, missing_docs)]
#![cfg_attr(docsrs, feature(doc_cfg))]

#[macro_use]
extern crate cfg_if;

use crate::util::{slice_as_uninit_mut, slice_assume_init_mut};
use core::mem::MaybeUninit;

mod error;
mod util;
// To prevent a breaking change when targets are added, we always export the
// register_custom_getrandom macro, so old Custom RNG crates continue to build.
#[cfg(feature = "custom")]
mod custom;
#[cfg(feature = "std")]
mod error_impls;

pub use crate::error::Error;

// System-specific implementations.
//
// These should all provide getrandom_inner with the signature
// `fn getrandom_inner(dest: &mut [MaybeUninit<u8>]) -> Result<(), Error>`.
// The function MUST fully initialize `dest` when `Ok(())` is returned.
// The function MUST NOT ever write uninitialized bytes into `dest`,
// regardless of what value it returns.
cfg_if! {
    if #[cfg(any(target_os = "haiku", target_os = "redox", target_os = "nto", target_os = "aix"))] {
        mod util_libc;
        #[path = "use_file.rs"] mod imp;
    } else if #[cfg(any(
        target_os = "macos",
        target_os = "openbsd",
        target_os = "vita",
        target_os = "emscripten",
    ))] {
        mod util_libc;
        #[path = "getentropy.rs"] mod imp;
    } else if #[cfg(any(
        target_os = "dragonfly",
        target_os = "freebsd",
        target_os = "hurd",
        target_os = "illumos",
        // Check for target_arch = "arm" to only include the 3DS. Does not
        // include the Nintendo Switch (which is target_arch = "aarch64").
        all(target_os = "horizon", target_arch = "arm"),
        target_os = "cygwin",
    ))] {
        mod util_libc;
        #[path = "getrandom.rs"] mod imp;
    } else if #[cfg(all(
        not(feature = "linux_disable_fallback"),
        any(
            // Rust supports Android API level 19 (KitKat) [0] and the next upgrade targets
            // level 21 (Lollipop) [1], while `getrandom(2)` was added only in
            // level 23 (Marshmallow). Note that it applies only to the "old" `target_arch`es,
            // RISC-V Android targets sufficiently new API level, same will apply for potential
            // new Android `target_arch`es.
            // [0]: https://blog.rust-lang.org/2023/01/09/android-ndk-update-r25.html
            // [1]: https://github.com/rust-lang/rust/pull/120593
            all(
                target_os = "android",
                any(
                    target_arch = "aarch64",
                    target_arch = "arm",
                    target_arch = "x86",
                    target_arch = "x86_64",
                ),
            ),
            // Only on these `target_arch`es Rust supports Linux kernel versions (3.2+)
            // that precede the version (3.17) in which `getrandom(2)` was added:
            // https://doc.rust-lang.org/stable/rustc/platform-support.html
            all(
                target_os = "linux",
                any(
                    target_arch = "aarch64",
                    target_arch = "arm",
                    target_arch = "powerpc",
                    target_arch = "powerpc64",
                    target_arch = "s390x",
                    target_arch = "x86",
                    target_arch = "x86_64",
                    // Minimum supported Linux kernel version for MUSL targets
                    // is not specified explicitly (as of Rust 1.77) and they
                    // are used in practice to target pre-3.17 kernels.
                    target_env = "musl",
                ),
            )
        ),
    ))] {
        mod util_libc;
        mod use_file;
        mod lazy;
        #[path = "linux_android_with_fallback.rs"] mod imp;
    } else if #[cfg(any(target_os = "android", target_os = "linux"))] {
        mod util_libc;
        #[path = "linux_android.rs"] mod imp;
    } else if #[cfg(target_os = "solaris")] {
        mod util_libc;
        #[path = "solaris.rs"] mod imp;
    } else if #[cfg(target_os = "netbsd")] {
        mod util_libc;
        #[path = "netbsd.rs"] mod imp;
    } else if #[cfg(target_os = "fuchsia")] {
        #[path = "fuchsia.rs"] mod imp;
    } else if #[cfg(any(target_os = "ios", target_os = "visionos", target_os = "watchos", target_os = "tvos"))] {
        #[path = "apple-other.rs"] mod imp;
    } else if #[cfg(all(target_arch = "wasm32", target_os = "wasi"))] {
        #[path = "wasi.rs"] mod imp;
    } else if #[cfg(target_os = "hermit")] {
        #[path = "hermit.rs"] mod imp;
    } else if #[cfg(target_os = "vxworks")] {
        mod util_libc;
        #[path = "vxworks.rs"] mod imp;
    } else if #[cfg(target_os = "solid_asp3")] {
        #[path = "solid.rs"] mod imp;
    } else if #[cfg(target_os = "espidf")] {
        #[path = "espidf.rs"] mod imp;
    } else if #[cfg(windows)] {
        #[path = "windows.rs"] mod imp;
    } else if #[cfg(all(target_arch = "x86_64", target_env = "sgx"))] {
        mod lazy;
        #[path = "rdrand.rs"] mod imp;
    } else if #[cfg(all(feature = "rdrand",
                        any(target_arch = "x86_64", target_arch = "x86")))] {
        mod lazy;
        #[path = "rdrand.rs"] mod imp;
    } else if #[cfg(all(feature = "js",
                        any(target_arch = "wasm32", target_arch = "wasm64"),
                        target_os = "unknown"))] {
        #[path = "js.rs"] mod imp;
    } else if #[cfg(feature = "custom")] {
        use custom as imp;
    } else if #[cfg(all(any(target_arch = "wasm32", target_arch = "wasm64"),
                        target_os = "unknown"))] {
        compile_error!("the wasm*-unknown-unknown targets are not supported by \
                        default, you may need to enable the \"js\" feature. \
                        For more information see: \
                        https://docs.rs/getrandom/#webassembly-support");
    } else {
        compile_error!("target is not supported, for more information see: \
                        https://docs.rs/getrandom/#unsupported-targets");
    }
}

/// Fill `dest` with random bytes from the system's preferred random number
/// source.
///
/// This function returns an error on any failure, including partial reads. We
/// make no guarantees regarding the contents of `dest` on error. If `dest` is
/// empty, `getrandom` immediately returns success, making no calls to the
/// underlying operating system.
///
/// Blocking is possible, at least during early boot; see module documentation.
///
/// In general, `getrandom` will be fast enough for interactive usage, though
/// significantly slower than a user-space CSPRNG; for the latter consider
/// [`rand::thread_rng`](https://docs.rs/rand/*/rand/fn.thread_rng.html).
#[inline]
pub fn getrandom(dest: &mut [u8]) -> Result<(), Error> {
    // SAFETY: The `&mut MaybeUninit<_>` reference doesn't escape, and
    // `getrandom_uninit` guarantees it will never de-initialize any part of
    // `dest`.
    getrandom_uninit(unsafe { slice_as_uninit_mut(dest) })?;
    Ok(())
}

/// Version of the `getrandom` function which fills `dest` with random bytes
/// returns a mutable reference to those bytes.
///
/// On successful completion this function is guaranteed to return a slice
/// which points to the same memory as `dest` and has the same length.
/// In other words, it's safe to assume that `dest` is initialized after
/// this function has returned `Ok`.
///
/// No part of `dest` will ever be de-initialized at any point, regardless
/// of what is returned.
///
/// # Examples
///
/// ```ignore
/// # // We ignore this test since `uninit_array` is unstable.
/// #![feature(maybe_uninit_uninit_array)]
/// # fn main() -> Result<(), getrandom::Error> {
/// let mut buf = core::mem::MaybeUninit::uninit_array::<1024>();
/// let buf: &mut [u8] = getrandom::getrandom_uninit(&mut buf)?;
/// # Ok(()) }
/// ```
#[inline]
pub fn getrandom_uninit(dest: &mut [MaybeUninit<u8>]) -> Result<&mut [u8], Error> {
    if !dest.is_empty() {
        imp::getrandom_inner(dest)?;
    }
    // SAFETY: `dest` has been fully initialized by `imp::getrandom_inner`
    // since it returned `Ok`.
    Ok(unsafe { slice_assume_init_mut(dest) })
}
