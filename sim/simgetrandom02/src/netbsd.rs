//! Implementation for NetBSD
use crate::{
    util_libc::{sys_fill_exact, Weak},
    Error,
};
use core::{mem::MaybeUninit, ptr};

fn kern_arnd(buf: &mut [MaybeUninit<u8>]) -> libc::ssize_t {
    static MIB: [libc::c_int; 2] = [libc::CTL_KERN, libc::KERN_ARND];
    let mut len = buf.len();
    let ret = unsafe {
        libc::sysctl(
            MIB.as_ptr(),
            MIB.len() as libc::c_uint,
            buf.as_mut_ptr() as *mut _,
            &mut len,
            ptr::null(),
            0,
        )
    };
    if ret == -1 {
        -1
    } else {
        len as libc::ssize_t
    }
}

type GetRandomFn = unsafe extern "C" fn(*mut u8, libc::size_t, libc::c_uint) -> libc::ssize_t;

pub fn getrandom_inner(dest: &mut [MaybeUninit<u8>]) -> Result<(), Error> {
    // getrandom(2) was introduced in NetBSD 10.0
    static GETRANDOM: Weak = unsafe { Weak::new("getrandom\0") };
    if let Some(fptr) = GETRANDOM.ptr() {
        let func: GetRandomFn = unsafe { core::mem::transmute(fptr) };
        return sys_fill_exact(dest, |buf| unsafe {
            func(buf.as_mut_ptr() as *mut u8, buf.len(), 0)
        });
    }

    // NetBSD will only return up to 256 bytes at a time, and
    // older NetBSD kernels will fail on longer buffers.
    for chunk in dest.chunks_mut(256) {
        sys_fill_exact(chunk, kern_arnd)?
    }
    Ok(())
}
