//! Implementation for Linux / Android without `/dev/urandom` fallback
use crate::{util_libc, Error};
use core::mem::MaybeUninit;

pub fn getrandom_inner(dest: &mut [MaybeUninit<u8>]) -> Result<(), Error> {
    util_libc::sys_fill_exact(dest, util_libc::getrandom_syscall)
}
