//! Implementation for WASI
use crate::Error;
use core::{
    mem::MaybeUninit,
    num::{NonZeroU16, NonZeroU32},
};
use wasi::random_get;

pub fn getrandom_inner(dest: &mut [MaybeUninit<u8>]) -> Result<(), Error> {
    unsafe { random_get(dest.as_mut_ptr() as *mut u8, dest.len()) }.map_err(|e| {
        // The WASI errno will always be non-zero, but we check just in case.
        match NonZeroU16::new(e.raw()) {
            Some(r) => Error::from(NonZeroU32::from(r)),
            None => Error::ERRNO_NOT_POSITIVE,
        }
    })
}
