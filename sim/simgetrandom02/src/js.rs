//! Implementation for WASM based on Web and Node.js
use crate::Error;

extern crate std;
use std::{mem::MaybeUninit, thread_local};

use js_sys::{global, Function, Uint8Array};
use wasm_bindgen::{prelude::wasm_bindgen, JsCast, JsValue};

// Size of our temporary Uint8Array buffer used with WebCrypto methods
// Maximum is 65536 bytes see https://developer.mozilla.org/en-US/docs/Web/API/Crypto/getRandomValues
const WEB_CRYPTO_BUFFER_SIZE: usize = 256;
// Node.js's crypto.randomFillSync requires the size to be less than 2**31.
const NODE_MAX_BUFFER_SIZE: usize = (1 << 31) - 1;

enum RngSource {
    Node(NodeCrypto),
    Web(WebCrypto, Uint8Array),
}

// JsValues are always per-thread, so we initialize RngSource for each thread.
//   See: https://github.com/rustwasm/wasm-bindgen/pull/955
thread_local!(
    static RNG_SOURCE: Result<RngSource, Error> = getrandom_init();
);

pub(crate) fn getrandom_inner(dest: &mut [MaybeUninit<u8>]) -> Result<(), Error> {
    RNG_SOURCE.with(|result| {
        let source = result.as_ref().map_err(|&e| e)?;

        match source {
            RngSource::Node(n) => {
                for chunk in dest.chunks_mut(NODE_MAX_BUFFER_SIZE) {
                    // SAFETY: chunk is never used directly, the memory is only
                    // modified via the Uint8Array view, which is passed
                    // directly to JavaScript. Also, crypto.randomFillSync does
                    // not resize the buffer. We know the length is less than
                    // u32::MAX because of the chunking above.
                    // Note that this uses the fact that JavaScript doesn't
                    // have a notion of "uninitialized memory", this is purely
                    // a Rust/C/C++ concept.
                    let res = n.random_fill_sync(unsafe {
                        Uint8Array::view_mut_raw(chunk.as_mut_ptr() as *mut u8, chunk.len())
                    });
                    if res.is_err() {
                        return Err(Error::NODE_RANDOM_FILL_SYNC);
                    }
                }
            }
            RngSource::Web(crypto, buf) => {
                // getRandomValues does not work with all types of WASM memory,
                // so we initially write to browser memory to avoid exceptions.
                for chunk in dest.chunks_mut(WEB_CRYPTO_BUFFER_SIZE) {
                    // The chunk can be smaller than buf's length, so we call to
                    // JS to create a smaller view of buf without allocation.
                    let sub_buf = buf.subarray(0, chunk.len() as u32);

                    if crypto.get_random_values(&sub_buf).is_err() {
                        return Err(Error::WEB_GET_RANDOM_VALUES);
                    }

                    // SAFETY: `sub_buf`'s length is the same length as `chunk`
                    unsafe { sub_buf.raw_copy_to_ptr(chunk.as_mut_ptr() as *mut u8) };
                }
            }
        };
        Ok(())
    })
}

fn getrandom_init() -> Result<RngSource, Error> {
    let global: Global = global().unchecked_into();

    // Get the Web Crypto interface if we are in a browser, Web Worker, Deno,
    // or another environment that supports the Web Cryptography API. This
    // also allows for user-provided polyfills in unsupported environments.
    let crypto = match global.crypto() {
        // Standard Web Crypto interface
        c if c.is_object() => c,
        // Node.js CommonJS Crypto module
        _ if is_node(&global) => {
            // If module.require isn't a valid function, we are in an ES module.
            match Module::require_fn().and_then(JsCast::dyn_into::<Function>) {
                Ok(require_fn) => match require_fn.call1(&global, &JsValue::from_str("crypto")) {
                    Ok(n) => return Ok(RngSource::Node(n.unchecked_into())),
                    Err(_) => return Err(Error::NODE_CRYPTO),
                },
                Err(_) => return Err(Error::NODE_ES_MODULE),
            }
        }
        // IE 11 Workaround
        _ => match global.ms_crypto() {
            c if c.is_object() => c,
            _ => return Err(Error::WEB_CRYPTO),
        },
    };

    let buf = Uint8Array::new_with_length(WEB_CRYPTO_BUFFER_SIZE as u32);
    Ok(RngSource::Web(crypto, buf))
}

// Taken from https://www.npmjs.com/package/browser-or-node
fn is_node(global: &Global) -> bool {
    let process = global.process();
    if process.is_object() {
        let versions = process.versions();
        if versions.is_object() {
            return versions.node().is_string();
        }
    }
    false
}

#[wasm_bindgen]
extern "C" {
    // Return type of js_sys::global()
    type Global;

    // Web Crypto API: Crypto interface (https://www.w3.org/TR/WebCryptoAPI/)
    type WebCrypto;
    // Getters for the WebCrypto API
    #[wasm_bindgen(method, getter)]
    fn crypto(this: &Global) -> WebCrypto;
    #[wasm_bindgen(method, getter, js_name = msCrypto)]
    fn ms_crypto(this: &Global) -> WebCrypto;
    // Crypto.getRandomValues()
    #[wasm_bindgen(method, js_name = getRandomValues, catch)]
    fn get_random_values(this: &WebCrypto, buf: &Uint8Array) -> Result<(), JsValue>;

    // Node JS crypto module (https://nodejs.org/api/crypto.html)
    type NodeCrypto;
    // crypto.randomFillSync()
    #[wasm_bindgen(method, js_name = randomFillSync, catch)]
    fn random_fill_sync(this: &NodeCrypto, buf: Uint8Array) -> Result<(), JsValue>;

    // Ideally, we would just use `fn require(s: &str)` here. However, doing
    // this causes a Webpack warning. So we instead return the function itself
    // and manually invoke it using call1. This also lets us to check that the
    // function actually exists, allowing for better error messages. See:
    //   https://github.com/rust-random/getrandom/issues/224
    //   https://github.com/rust-random/getrandom/issues/256
    type Module;
    #[wasm_bindgen(getter, static_method_of = Module, js_class = module, js_name = require, catch)]
    fn require_fn() -> Result<JsValue, JsValue>;

    // Node JS process Object (https://nodejs.org/api/process.html)
    #[wasm_bindgen(method, getter)]
    fn process(this: &Global) -> Process;
    type Process;
    #[wasm_bindgen(method, getter)]
    fn versions(this: &Process) -> Versions;
    type Versions;
    #[wasm_bindgen(method, getter)]
    fn node(this: &Versions) -> JsValue;
}
