//! Implementation for Linux / Android with `/dev/urandom` fallback
use crate::{
    lazy::LazyBool,
    util_libc::{getrandom_syscall, last_os_error, sys_fill_exact},
    {use_file, Error},
};
use core::mem::MaybeUninit;

pub fn getrandom_inner(dest: &mut [MaybeUninit<u8>]) -> Result<(), Error> {
    // getrandom(2) was introduced in Linux 3.17
    static HAS_GETRANDOM: LazyBool = LazyBool::new();
    if HAS_GETRANDOM.unsync_init(is_getrandom_available) {
        sys_fill_exact(dest, getrandom_syscall)
    } else {
        use_file::getrandom_inner(dest)
    }
}

fn is_getrandom_available() -> bool {
    if getrandom_syscall(&mut []) < 0 {
        match last_os_error().raw_os_error() {
            Some(libc::ENOSYS) => false, // No kernel support
            // The fallback on EPERM is intentionally not done on Android since this workaround
            // seems to be needed only for specific Linux-based products that aren't based
            // on Android. See https://github.com/rust-random/getrandom/issues/229.
            #[cfg(target_os = "linux")]
            Some(libc::EPERM) => false, // Blocked by seccomp
            _ => true,
        }
    } else {
        true
    }
}
