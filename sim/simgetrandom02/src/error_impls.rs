extern crate std;

use crate::Error;
use std::io;

impl From<Error> for io::Error {
    fn from(err: Error) -> Self {
        match err.raw_os_error() {
            Some(errno) => io::Error::from_raw_os_error(errno),
            None => io::Error::new(io::ErrorKind::Other, err),
        }
    }
}

impl std::error::Error for Error {}
