//! Implementation for iOS, tvOS, and watchOS where `getentropy` is unavailable.
use crate::Error;
use core::{ffi::c_void, mem::MaybeUninit};

// libsystem contains the libc of Darwin, and every binary ends up linked against it either way. This
// makes it a more lightweight choice compared to `Security.framework`.
extern "C" {
    // This RNG uses a thread-local CSPRNG to provide data, which is seeded by the operating system's root CSPRNG.
    // Its the best option after `getentropy` on modern Darwin-based platforms that also avoids the
    // high startup costs and linking of Security.framework.
    //
    // While its just an implementation detail, `Security.framework` just calls into this anyway.
    fn CCRandomGenerateBytes(bytes: *mut c_void, size: usize) -> i32;
}

pub fn getrandom_inner(dest: &mut [MaybeUninit<u8>]) -> Result<(), Error> {
    let ret = unsafe { CCRandomGenerateBytes(dest.as_mut_ptr() as *mut c_void, dest.len()) };
    // kCCSuccess (from CommonCryptoError.h) is always zero.
    if ret != 0 {
        Err(Error::IOS_SEC_RANDOM)
    } else {
        Ok(())
    }
}
