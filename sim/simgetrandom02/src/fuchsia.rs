//! Implementation for Fuchsia Zircon
use crate::Error;
use core::mem::MaybeUninit;

#[link(name = "zircon")]
extern "C" {
    fn zx_cprng_draw(buffer: *mut u8, length: usize);
}

pub fn getrandom_inner(dest: &mut [MaybeUninit<u8>]) -> Result<(), Error> {
    unsafe { zx_cprng_draw(dest.as_mut_ptr() as *mut u8, dest.len()) }
    Ok(())
}
