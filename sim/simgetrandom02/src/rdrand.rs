//! RDRAND backend for x86(-64) targets
use crate::{lazy::LazyBool, util::slice_as_uninit, Error};
use core::mem::{size_of, MaybeUninit};

cfg_if! {
    if #[cfg(target_arch = "x86_64")] {
        use core::arch::x86_64 as arch;
        use arch::_rdrand64_step as rdrand_step;
    } else if #[cfg(target_arch = "x86")] {
        use core::arch::x86 as arch;
        use arch::_rdrand32_step as rdrand_step;
    }
}

// Recommendation from "Intel® Digital Random Number Generator (DRNG) Software
// Implementation Guide" - Section 5.2.1 and "Intel® 64 and IA-32 Architectures
// Software Developer’s Manual" - Volume 1 - Section 7.3.17.1.
const RETRY_LIMIT: usize = 10;

#[target_feature(enable = "rdrand")]
unsafe fn rdrand() -> Option<usize> {
    for _ in 0..RETRY_LIMIT {
        let mut val = 0;
        if rdrand_step(&mut val) == 1 {
            return Some(val as usize);
        }
    }
    None
}

// "rdrand" target feature requires "+rdrand" flag, see https://github.com/rust-lang/rust/issues/49653.
#[cfg(all(target_env = "sgx", not(target_feature = "rdrand")))]
compile_error!(
    "SGX targets require 'rdrand' target feature. Enable by using -C target-feature=+rdrand."
);

// Run a small self-test to make sure we aren't repeating values
// Adapted from Linux's test in arch/x86/kernel/cpu/rdrand.c
// Fails with probability < 2^(-90) on 32-bit systems
#[target_feature(enable = "rdrand")]
unsafe fn self_test() -> bool {
    // On AMD, RDRAND returns 0xFF...FF on failure, count it as a collision.
    let mut prev = !0; // TODO(MSRV 1.43): Move to usize::MAX
    let mut fails = 0;
    for _ in 0..8 {
        match rdrand() {
            Some(val) if val == prev => fails += 1,
            Some(val) => prev = val,
            None => return false,
        };
    }
    fails <= 2
}

fn is_rdrand_good() -> bool {
    #[cfg(not(target_feature = "rdrand"))]
    {
        // SAFETY: All Rust x86 targets are new enough to have CPUID, and we
        // check that leaf 1 is supported before using it.
        let cpuid0 = unsafe { arch::__cpuid(0) };
        if cpuid0.eax < 1 {
            return false;
        }
        let cpuid1 = unsafe { arch::__cpuid(1) };

        let vendor_id = [
            cpuid0.ebx.to_le_bytes(),
            cpuid0.edx.to_le_bytes(),
            cpuid0.ecx.to_le_bytes(),
        ];
        if vendor_id == [*b"Auth", *b"enti", *b"cAMD"] {
            let mut family = (cpuid1.eax >> 8) & 0xF;
            if family == 0xF {
                family += (cpuid1.eax >> 20) & 0xFF;
            }
            // AMD CPUs families before 17h (Zen) sometimes fail to set CF when
            // RDRAND fails after suspend. Don't use RDRAND on those families.
            // See https://bugzilla.redhat.com/show_bug.cgi?id=1150286
            if family < 0x17 {
                return false;
            }
        }

        const RDRAND_FLAG: u32 = 1 << 30;
        if cpuid1.ecx & RDRAND_FLAG == 0 {
            return false;
        }
    }

    // SAFETY: We have already checked that rdrand is available.
    unsafe { self_test() }
}

pub fn getrandom_inner(dest: &mut [MaybeUninit<u8>]) -> Result<(), Error> {
    static RDRAND_GOOD: LazyBool = LazyBool::new();
    if !RDRAND_GOOD.unsync_init(is_rdrand_good) {
        return Err(Error::NO_RDRAND);
    }
    // SAFETY: After this point, we know rdrand is supported.
    unsafe { rdrand_exact(dest) }.ok_or(Error::FAILED_RDRAND)
}

// TODO: make this function safe when we have feature(target_feature_11)
#[target_feature(enable = "rdrand")]
unsafe fn rdrand_exact(dest: &mut [MaybeUninit<u8>]) -> Option<()> {
    // We use chunks_exact_mut instead of chunks_mut as it allows almost all
    // calls to memcpy to be elided by the compiler.
    let mut chunks = dest.chunks_exact_mut(size_of::<usize>());
    for chunk in chunks.by_ref() {
        let src = rdrand()?.to_ne_bytes();
        chunk.copy_from_slice(slice_as_uninit(&src));
    }

    let tail = chunks.into_remainder();
    let n = tail.len();
    if n > 0 {
        let src = rdrand()?.to_ne_bytes();
        tail.copy_from_slice(slice_as_uninit(&src[..n]));
    }
    Some(())
}
