//! Seeded workload generation: swarm configuration, schemas, DML (with faults placed *inside*
//! statements), predicates and read-only probes.

use crate::ops::*;
use crate::snapshot::table_rows;
use crate::sut::Sut;
use crate::world::World;
use serde::{Deserialize, Serialize};
use simcore::Rng;
use vibesql_types::SqlValue;

/// Per-run configuration drawn from the swarm stream. Everything that shapes a run lives here and is
/// stored in the replay file.
#[derive(Clone, Debug, Serialize, Deserialize)]
pub struct Swarm {
    pub n_tables: usize,
    pub max_cols: usize,
    /// integer values are drawn from 0..domain (narrow domains force duplicates and conflicts)
    pub domain: i64,
    /// percent of generated values that are NULL (where allowed)
    pub null_pct: u64,
    pub steps: usize,
    pub max_rows_stmt: usize,
    /// percent of DML statements that carry an injected fault (bad row / bad column / ...)
    pub fault_pct: u64,
    pub with_pk: bool,
    pub composite_pk: bool,
    pub with_unique: bool,
    pub with_check: bool,
    pub with_not_null: bool,
    pub with_fk: bool,
    pub with_indexes: bool,
    pub idx_composite: bool,
    pub idx_unique: bool,
    pub idx_prefix: bool,
    pub idx_desc: bool,
    pub with_tx: bool,
    pub with_savepoints: bool,
    pub ddl_in_history: bool,
    pub with_analyze: bool,
    pub extreme_ints: bool,
    /// names of generator guards that are active (quarantined regions, see known_findings.json)
    pub guards: Vec<String>,
    /// relative weights of operation classes; a seeded subset is zeroed per run
    pub w_insert: u32,
    pub w_update: u32,
    pub w_delete: u32,
    pub w_truncate: u32,
    pub w_index: u32,
    pub w_tx: u32,
    pub w_ddl: u32,
    pub w_insert_select: u32,
    /// rows bulk-loaded into the first table before the history starts (0 = none); used to push
    /// chunked parallel operators (chunk size >= 1000) over more than one chunk
    #[serde(default)]
    pub big_rows: usize,
}

impl Swarm {
    pub fn draw(rng: &mut Rng, guards: &[String]) -> Swarm {
        let domain = *rng.pick(&[2i64, 3, 5, 8, 8, 16, 16, 50, 1000]);
        let mut s = Swarm {
            n_tables: 1 + rng.usize(3),
            max_cols: 2 + rng.usize(3),
            domain,
            null_pct: *rng.pick(&[0u64, 5, 15, 30, 60]),
            steps: 8 + rng.usize(40),
            max_rows_stmt: 1 + rng.usize(6),
            fault_pct: *rng.pick(&[0u64, 10, 25, 50]),
            with_pk: rng.chance(3, 4),
            composite_pk: rng.chance(1, 4),
            with_unique: rng.chance(1, 2),
            with_check: rng.chance(1, 3),
            with_not_null: rng.chance(1, 2),
            with_fk: false,
            with_indexes: rng.chance(3, 4),
            idx_composite: rng.chance(1, 2),
            idx_unique: rng.chance(1, 3),
            idx_prefix: rng.chance(1, 2),
            idx_desc: rng.chance(1, 4),
            with_tx: rng.chance(1, 3),
            with_savepoints: false,
            ddl_in_history: rng.chance(1, 4),
            with_analyze: rng.chance(1, 3),
            extreme_ints: rng.chance(1, 8),
            guards: guards.to_vec(),
            w_insert: 10,
            w_update: 6,
            w_delete: 4,
            w_truncate: 1,
            w_index: 2,
            w_tx: 2,
            w_ddl: 1,
            w_insert_select: 1,
            big_rows: 0,
        };
        // swarm: zero a random subset of the optional classes
        if rng.chance(1, 4) {
            s.w_update = 0;
        }
        if rng.chance(1, 4) {
            s.w_delete = 0;
        }
        if rng.chance(1, 2) {
            s.w_truncate = 0;
        }
        if rng.chance(1, 2) {
            s.w_insert_select = 0;
        }
        s
    }
    pub fn guard(&self, name: &str) -> bool {
        self.guards.iter().any(|g| g == name)
    }
}

pub const STR_POOL: [&str; 12] = ["", "a", "b", "ab", "abc", "abd", "B", "Ab", "zz", "a b", "it's", "%_"];

pub fn gen_int(rng: &mut Rng, sw: &Swarm) -> i64 {
    if sw.extreme_ints && rng.chance(1, 10) {
        return *rng.pick(&[i64::MAX, i64::MIN + 1, i64::MAX - 1, -1, 2147483647, -2147483648, 2147483648]);
    }
    rng.range(0, sw.domain - 1)
}

pub fn gen_value(rng: &mut Rng, sw: &Swarm, c: &ColDef, allow_null: bool) -> Lit {
    if allow_null && !c.not_null && rng.chance(sw.null_pct, 100) {
        return Lit::Null;
    }
    match &c.ty {
        Ty::Int => Lit::Int(gen_int(rng, sw)),
        Ty::Str(n) => {
            let k = (sw.domain as usize).min(STR_POOL.len()).max(2);
            let s = STR_POOL[rng.usize(k)];
            let s: String = s.chars().take(*n as usize).collect();
            Lit::Str(s)
        }
    }
}

pub fn gen_table(rng: &mut Rng, sw: &Swarm, name: &str) -> TableDef {
    let ncols = 1 + rng.usize(sw.max_cols);
    let mut cols = Vec::new();
    for i in 0..ncols {
        let ty = if i == 0 || rng.chance(2, 3) { Ty::Int } else { Ty::Str(*rng.pick(&[3u32, 8, 20])) };
        cols.push(ColDef { name: format!("c{}", i), ty, not_null: sw.with_not_null && rng.chance(1, 4) });
    }
    let mut d = TableDef { name: name.to_string(), cols, ..Default::default() };
    if sw.with_pk {
        if sw.composite_pk && ncols >= 2 {
            d.pk = vec![0, 1];
        } else {
            d.pk = vec![0];
        }
        for i in &d.pk {
            d.cols[*i].not_null = true;
        }
    }
    if sw.with_unique && ncols >= 2 {
        let c = 1 + rng.usize(ncols - 1);
        if !d.pk.contains(&c) || d.pk.len() > 1 {
            if rng.chance(1, 4) && ncols >= 3 {
                let c2 = 1 + rng.usize(ncols - 1);
                if c2 != c {
                    d.uniques.push(vec![c, c2]);
                } else {
                    d.uniques.push(vec![c]);
                }
            } else {
                d.uniques.push(vec![c]);
            }
        }
    }
    if sw.with_check {
        let ints: Vec<usize> = (0..ncols).filter(|i| d.cols[*i].ty == Ty::Int).collect();
        if !ints.is_empty() {
            let a = *rng.pick(&ints);
            if ints.len() >= 2 && rng.chance(1, 3) {
                let b = *rng.pick(&ints);
                if a != b {
                    d.checks.push(Check::ColCol { a, op: *rng.pick(&[Cmp::Le, Cmp::Ne, Cmp::Lt]), b });
                }
            } else {
                let lit = rng.range(0, sw.domain - 1);
                d.checks.push(Check::ColLit { col: a, op: *rng.pick(&[Cmp::Ne, Cmp::Ge, Cmp::Le, Cmp::Lt, Cmp::Gt]), lit });
            }
        }
    }
    d
}

pub fn gen_index(rng: &mut Rng, sw: &Swarm, world: &mut World, def: &TableDef) -> IndexDef {
    let ncols = def.cols.len();
    let n = if sw.idx_composite && ncols >= 2 && rng.chance(1, 2) { 2 } else { 1 };
    let mut picked: Vec<usize> = Vec::new();
    while picked.len() < n {
        let c = rng.usize(ncols);
        if !picked.contains(&c) {
            picked.push(c);
        }
    }
    let cols = picked
        .iter()
        .map(|c| {
            let cd = &def.cols[*c];
            let prefix = match cd.ty {
                Ty::Str(_) if sw.idx_prefix && rng.chance(1, 2) => Some(1 + rng.below(3) as u32),
                _ => None,
            };
            (cd.name.clone(), prefix, sw.idx_desc && rng.chance(1, 2))
        })
        .collect();
    IndexDef { name: world.fresh_name("ix"), table: def.name.clone(), unique: sw.idx_unique && rng.chance(1, 3), cols }
}

/// Values currently stored in column `ci` of `table` (non-NULL, as literals).
pub fn existing_values(sut: &Sut, table: &str, ci: usize) -> Vec<Lit> {
    let mut out = Vec::new();
    if let Some(rows) = table_rows(sut, table) {
        for r in rows {
            match r.get(ci) {
                Some(SqlValue::Integer(i)) | Some(SqlValue::Bigint(i)) => out.push(Lit::Int(*i)),
                Some(SqlValue::Varchar(s)) | Some(SqlValue::Character(s)) => out.push(Lit::Str(s.clone())),
                _ => {}
            }
        }
    }
    out
}

/// A literal for column `c`: biased to values present in the table (and their neighbours).
pub fn gen_lit_for(rng: &mut Rng, sw: &Swarm, sut: &Sut, def: &TableDef, ci: usize) -> Lit {
    let ex = existing_values(sut, &def.name, ci);
    if !ex.is_empty() && rng.chance(2, 3) {
        let v = rng.pick(&ex).clone();
        if let Lit::Int(i) = v {
            return Lit::Int(match rng.below(4) {
                0 => i.saturating_add(1),
                1 => i.saturating_sub(1),
                _ => i,
            });
        }
        return v;
    }
    gen_value(rng, sw, &def.cols[ci], false)
}

#[derive(Clone, Copy, Debug, Default)]
pub struct PredOpts {
    /// allow a bare non-boolean column / integer expression as the predicate
    pub truthy: bool,
    /// allow numeric literals of another type (5.0, 5e0)
    pub mixed_numeric: bool,
    pub allow_or_not: bool,
}

fn atom(rng: &mut Rng, sw: &Swarm, sut: &Sut, def: &TableDef, o: PredOpts) -> String {
    let ci = rng.usize(def.cols.len());
    let c = &def.cols[ci];
    let name = &c.name;
    let lit = |rng: &mut Rng| -> String {
        let l = gen_lit_for(rng, sw, sut, def, ci);
        match (&l, o.mixed_numeric && rng.chance(1, 6)) {
            (Lit::Int(i), true) if i.unsigned_abs() < (1u64 << 40) => {
                if rng.chance(1, 2) {
                    format!("{}.0", i)
                } else {
                    format!("{}e0", i)
                }
            }
            _ => l.sql(),
        }
    };
    match rng.below(12) {
        0 => format!("{} IS NULL", name),
        1 => format!("{} IS NOT NULL", name),
        2 => {
            let a = lit(rng);
            let b = lit(rng);
            format!("{} BETWEEN {} AND {}", name, a, b)
        }
        3 => {
            let n = 1 + rng.usize(3);
            let xs: Vec<String> = (0..n).map(|_| lit(rng)).collect();
            format!("{} IN ({})", name, xs.join(", "))
        }
        4 if def.cols.len() >= 2 => {
            // column vs column of the same type
            let same: Vec<&ColDef> = def.cols.iter().filter(|d| d.ty_class() == c.ty_class() && d.name != *name).collect();
            if same.is_empty() {
                format!("{} = {}", name, lit(rng))
            } else {
                format!("{} {} {}", name, rng.pick(&Cmp::ALL).sql(), rng.pick(&same).name)
            }
        }
        5 if o.truthy && c.ty == Ty::Int => name.clone(),
        6 => format!("{} = {}", lit(rng), name),
        _ => format!("{} {} {}", name, rng.pick(&Cmp::ALL).sql(), lit(rng)),
    }
}

impl ColDef {
    pub fn ty_class(&self) -> u8 {
        match self.ty {
            Ty::Int => 0,
            Ty::Str(_) => 1,
        }
    }
}

pub fn gen_pred(rng: &mut Rng, sw: &Swarm, sut: &Sut, def: &TableDef, o: PredOpts) -> String {
    let a = atom(rng, sw, sut, def, o);
    match rng.below(8) {
        0 | 1 => format!("{} AND {}", a, atom(rng, sw, sut, def, o)),
        2 if o.allow_or_not => format!("{} OR {}", a, atom(rng, sw, sut, def, o)),
        3 if o.allow_or_not => format!("NOT ({})", a),
        4 if o.allow_or_not => format!("({} OR {}) AND {}", a, atom(rng, sw, sut, def, o), atom(rng, sw, sut, def, o)),
        _ => a,
    }
}

/// Primary-key fast-path shaped predicate (`pk = lit` / `lit = pk`).
pub fn gen_pk_pred(rng: &mut Rng, sw: &Swarm, sut: &Sut, def: &TableDef, o: PredOpts) -> Option<String> {
    if def.pk.is_empty() {
        return None;
    }
    let mut parts = Vec::new();
    for ci in &def.pk {
        let l = gen_lit_for(rng, sw, sut, def, *ci);
        let ls = match (&l, o.mixed_numeric && rng.chance(1, 5)) {
            (Lit::Int(i), true) if i.unsigned_abs() < (1u64 << 40) => format!("{}.0", i),
            _ => l.sql(),
        };
        if rng.chance(1, 4) {
            parts.push(format!("{} = {}", ls, def.cols[*ci].name));
        } else {
            parts.push(format!("{} = {}", def.cols[*ci].name, ls));
        }
    }
    Some(parts.join(" AND "))
}

/// What kind of fault (if any) to place inside a multi-row statement.
#[derive(Clone, Copy, Debug, PartialEq, Eq)]
pub enum RowFault {
    None,
    DupKeyVsTable,
    DupKeyInBatch,
    NullInNotNull,
    CheckFalse,
    TypeError,
    Arity,
    MissingColumn,
}

/// A row of fresh values; tries to avoid PK/UNIQUE collisions with the table and `taken`.
fn good_row(rng: &mut Rng, sw: &Swarm, sut: &Sut, def: &TableDef, taken: &[Vec<Lit>]) -> Vec<Lit> {
    let mut best: Vec<Lit> = Vec::new();
    for _attempt in 0..6 {
        let mut row: Vec<Lit> = def.cols.iter().map(|c| gen_value(rng, sw, c, true)).collect();
        // primary key: next free small integer is likely with narrow domains; help it along
        if let Some(&k) = def.pk.first() {
            if def.cols[k].ty == Ty::Int && rng.chance(2, 3) {
                let ex = existing_values(sut, &def.name, k);
                let mut m = ex.iter().filter_map(|l| if let Lit::Int(i) = l { Some(*i) } else { None }).filter(|i| *i < 1 << 40).max().unwrap_or(-1);
                for t in taken {
                    if let Some(Lit::Int(i)) = t.get(k) {
                        if *i < 1 << 40 {
                            m = m.max(*i);
                        }
                    }
                }
                row[k] = Lit::Int(m + 1);
            }
        }
        // repair CHECKs that the harness can evaluate
        for c in &def.checks {
            if let Check::ColLit { col, op, lit } = c {
                if let Lit::Int(v) = row[*col] {
                    if !op.eval(v, *lit) {
                        let fixed = match op {
                            Cmp::Ne => lit + 1,
                            Cmp::Ge | Cmp::Le | Cmp::Eq => *lit,
                            Cmp::Lt => lit - 1,
                            Cmp::Gt => lit + 1,
                        };
                        if !def.pk.contains(col) {
                            row[*col] = Lit::Int(fixed);
                        }
                    }
                }
            }
        }
        best = row;
        break;
    }
    best
}

/// Multi-row INSERT with an optional fault at a seeded position.
pub fn gen_insert(rng: &mut Rng, sw: &Swarm, sut: &Sut, def: &TableDef, force_fault: Option<RowFault>) -> Op {
    let n = 1 + rng.usize(sw.max_rows_stmt);
    let mut rows: Vec<Vec<Lit>> = Vec::new();
    for _ in 0..n {
        let r = good_row(rng, sw, sut, def, &rows);
        rows.push(r);
    }
    let fault = match force_fault {
        Some(f) => f,
        None => {
            if rng.chance(sw.fault_pct, 100) {
                *rng.pick(&[
                    RowFault::DupKeyVsTable,
                    RowFault::DupKeyInBatch,
                    RowFault::NullInNotNull,
                    RowFault::CheckFalse,
                    RowFault::TypeError,
                    RowFault::Arity,
                    RowFault::MissingColumn,
                ])
            } else {
                RowFault::None
            }
        }
    };
    let k = rng.usize(n);
    let mut cols: Vec<String> = vec![];
    let mut note = String::new();
    match fault {
        RowFault::None => {}
        RowFault::DupKeyVsTable => {
            let keycols: Vec<usize> = if !def.pk.is_empty() && rng.chance(2, 3) {
                def.pk.clone()
            } else if let Some(u) = def.uniques.first() {
                u.clone()
            } else {
                def.pk.clone()
            };
            if let Some(trs) = table_rows(sut, &def.name) {
                if !keycols.is_empty() && !trs.is_empty() {
                    let src = &trs[rng.usize(trs.len())];
                    for c in &keycols {
                        rows[k][*c] = match &src[*c] {
                            SqlValue::Integer(i) | SqlValue::Bigint(i) => Lit::Int(*i),
                            SqlValue::Varchar(s) | SqlValue::Character(s) => Lit::Str(s.clone()),
                            _ => Lit::Null,
                        };
                    }
                    note = format!("dup-key-vs-table@{}/{}", k + 1, n);
                }
            }
        }
        RowFault::DupKeyInBatch => {
            let keycols: Vec<usize> = if !def.pk.is_empty() { def.pk.clone() } else { def.uniques.first().cloned().unwrap_or_default() };
            if n >= 2 && !keycols.is_empty() {
                let j = (k + 1 + rng.usize(n - 1)) % n;
                let (lo, hi) = (j.min(k), j.max(k));
                for c in &keycols {
                    let v = rows[lo][*c].clone();
                    rows[hi][*c] = v;
                }
                note = format!("dup-key-in-batch@{}/{}", hi + 1, n);
            }
        }
        RowFault::NullInNotNull => {
            let nn: Vec<usize> = (0..def.cols.len()).filter(|i| def.cols[*i].not_null).collect();
            if !nn.is_empty() {
                rows[k][*rng.pick(&nn)] = Lit::Null;
                note = format!("null-in-not-null@{}/{}", k + 1, n);
            }
        }
        RowFault::CheckFalse => {
            if let Some(Check::ColLit { col, op, lit }) = def.checks.first() {
                let bad = match op {
                    Cmp::Ne | Cmp::Lt | Cmp::Gt => *lit,
                    Cmp::Ge => lit - 1,
                    Cmp::Le => lit + 1,
                    Cmp::Eq => lit + 1,
                };
                rows[k][*col] = Lit::Int(bad);
                note = format!("check-false@{}/{}", k + 1, n);
            }
        }
        RowFault::TypeError => {
            let ints: Vec<usize> = (0..def.cols.len()).filter(|i| def.cols[*i].ty == Ty::Int).collect();
            if !ints.is_empty() {
                rows[k][*rng.pick(&ints)] = Lit::Str("xyz".into());
                note = format!("type-error@{}/{}", k + 1, n);
            }
        }
        RowFault::Arity => {
            rows[k].push(Lit::Int(1));
            note = format!("arity@{}/{}", k + 1, n);
        }
        RowFault::MissingColumn => {
            cols = def.cols.iter().map(|c| c.name.clone()).collect();
            let i = rng.usize(cols.len());
            cols[i] = "nosuchcol".into();
            note = "missing-column".into();
        }
    }
    if cols.is_empty() && rng.chance(1, 5) {
        cols = def.cols.iter().map(|c| c.name.clone()).collect();
    }
    Op::insert(&def.name, &cols, rows).fault(&note)
}

pub fn gen_set_expr(rng: &mut Rng, sw: &Swarm, sut: &Sut, def: &TableDef, ci: usize) -> String {
    let c = &def.cols[ci];
    match c.ty {
        Ty::Int => {
            let ints: Vec<&ColDef> = def.cols.iter().filter(|d| d.ty == Ty::Int).collect();
            match rng.below(8) {
                0 => format!("{} + 1", c.name),
                1 => format!("{} - 1", c.name),
                2 => rng.pick(&ints).name.clone(),
                3 => format!("{} + {}", rng.pick(&ints).name, rng.range(0, 3)),
                4 => {
                    // keep magnitudes far from the i64 edge unless the run asked for extreme values
                    let big = existing_values(sut, &def.name, ci).iter().any(|l| matches!(l, Lit::Int(i) if i.unsigned_abs() > (1u64 << 40)));
                    if big && !sw.extreme_ints {
                        format!("{} + 2", c.name)
                    } else {
                        format!("{} * 2", c.name)
                    }
                }
                5 if !c.not_null => "NULL".into(),
                _ => gen_lit_for(rng, sw, sut, def, ci).sql(),
            }
        }
        Ty::Str(_) => {
            let strs: Vec<&ColDef> = def.cols.iter().filter(|d| d.ty_class() == 1).collect();
            match rng.below(5) {
                0 if strs.len() >= 2 => rng.pick(&strs).name.clone(),
                1 if !c.not_null => "NULL".into(),
                _ => gen_value(rng, sw, c, false).sql(),
            }
        }
    }
}

pub fn gen_update(rng: &mut Rng, sw: &Swarm, sut: &Sut, def: &TableDef, o: PredOpts) -> Op {
    let n = 1 + rng.usize(2.min(def.cols.len()));
    let mut sets: Vec<(String, String)> = Vec::new();
    let mut used: Vec<usize> = Vec::new();
    while sets.len() < n {
        let ci = rng.usize(def.cols.len());
        if used.contains(&ci) {
            continue;
        }
        used.push(ci);
        sets.push((def.cols[ci].name.clone(), gen_set_expr(rng, sw, sut, def, ci)));
    }
    // swap shape: SET a = b, b = a
    if def.cols.len() >= 2 && rng.chance(1, 12) {
        let ints: Vec<&ColDef> = def.cols.iter().filter(|d| d.ty == Ty::Int).collect();
        if ints.len() >= 2 {
            sets = vec![(ints[0].name.clone(), ints[1].name.clone()), (ints[1].name.clone(), ints[0].name.clone())];
        }
    }
    let pred = gen_dml_pred(rng, sw, sut, def, o);
    Op::update(&def.name, sets, pred)
}

pub fn gen_dml_pred(rng: &mut Rng, sw: &Swarm, sut: &Sut, def: &TableDef, o: PredOpts) -> Option<String> {
    match rng.below(10) {
        0 => None,
        1 | 2 | 3 => gen_pk_pred(rng, sw, sut, def, o).or_else(|| Some(gen_pred(rng, sw, sut, def, o))),
        _ => Some(gen_pred(rng, sw, sut, def, o)),
    }
}

pub fn gen_delete(rng: &mut Rng, sw: &Swarm, sut: &Sut, def: &TableDef, o: PredOpts) -> Op {
    let pred = gen_dml_pred(rng, sw, sut, def, o);
    Op::delete(&def.name, pred)
}

/// Parent/child schemas: t0 parent; t1 child of t0; optionally t2 = grandchild (-> t1) or second child
/// (-> t0); optionally a self-reference inside t0. Keys are single INTEGER primary keys.
pub fn gen_fk_tables(rng: &mut Rng, sw: &Swarm) -> Vec<TableDef> {
    let acts = [None, Some(FkAction::NoAction), Some(FkAction::Restrict), Some(FkAction::Cascade), Some(FkAction::Cascade), Some(FkAction::SetNull)];
    let mk = |name: &str, extra: usize| -> TableDef {
        let mut cols = vec![ColDef { name: "c0".into(), ty: Ty::Int, not_null: true }];
        for i in 0..extra {
            cols.push(ColDef { name: format!("c{}", i + 1), ty: Ty::Int, not_null: false });
        }
        TableDef { name: name.into(), cols, pk: vec![0], ..Default::default() }
    };
    let mut out = Vec::new();
    let mut t0 = mk("t0", 2);
    if rng.chance(1, 3) {
        t0.fks.push(Fk { col: 1, parent: "t0".into(), parent_col: "c0".into(), on_delete: *rng.pick(&acts), on_update: *rng.pick(&acts) });
    }
    out.push(t0);
    let mut t1 = mk("t1", 2);
    t1.fks.push(Fk { col: 1, parent: "t0".into(), parent_col: "c0".into(), on_delete: *rng.pick(&acts), on_update: *rng.pick(&acts) });
    out.push(t1);
    if sw.n_tables >= 2 {
        let mut t2 = mk("t2", 2);
        let parent = if rng.chance(1, 2) { "t1" } else { "t0" };
        t2.fks.push(Fk { col: 1, parent: parent.into(), parent_col: "c0".into(), on_delete: *rng.pick(&acts), on_update: *rng.pick(&acts) });
        if rng.chance(1, 4) {
            // a child with two foreign keys (onto two different parents). Referential actions of
            // different keys on the same rows do not commute, so such a run uses NO ACTION / RESTRICT only
            let other = if parent == "t1" { "t0" } else { "t1" };
            t2.fks.push(Fk { col: 2, parent: other.into(), parent_col: "c0".into(), on_delete: None, on_update: None });
            let strict = [None, Some(FkAction::NoAction), Some(FkAction::Restrict)];
            for t in out.iter_mut().chain(std::iter::once(&mut t2)) {
                for f in t.fks.iter_mut() {
                    f.on_delete = *rng.pick(&strict);
                    f.on_update = *rng.pick(&strict);
                }
            }
        }
        else if parent == "t0" && rng.chance(1, 3) {
            // a child that references the same parent through two foreign keys with the same actions
            // (sender / receiver): one parent row is reached through both keys, also within one child row
            let (d, u) = (t2.fks[0].on_delete, t2.fks[0].on_update);
            t2.fks.push(Fk { col: 2, parent: "t0".into(), parent_col: "c0".into(), on_delete: d, on_update: u });
        }
        out.push(t2);
    }
    out
}

/// Make the FK columns of a generated INSERT mostly valid: existing parent key, NULL, or (fault) an
/// orphan value at a seeded row.
pub fn fk_adjust_insert(rng: &mut Rng, sut: &Sut, world: &World, def: &TableDef, op: Op) -> Op {
    if !op.cols.is_empty() && op.cols.iter().any(|c| c == "nosuchcol") {
        return op;
    }
    let mut rows = op.rows.clone();
    let mut note = op.fault.clone();
    let n = rows.len();
    let bad = if rng.chance(1, 6) { Some(rng.usize(n)) } else { None };
    for f in &def.fks {
        let pdef = match world.tables.get(&f.parent) {
            Some(p) => p,
            None => continue,
        };
        let pc = pdef.col_index(&f.parent_col).unwrap_or(0);
        let keys = existing_values(sut, &f.parent, pc);
        for (i, r) in rows.iter_mut().enumerate() {
            if r.len() <= f.col {
                continue;
            }
            if Some(i) == bad {
                let m = keys.iter().filter_map(|k| if let Lit::Int(x) = k { Some(*x) } else { None }).filter(|x| *x < 1 << 40).max().unwrap_or(0);
                r[f.col] = Lit::Int(m + 7);
                note = format!("fk-orphan@{}/{}", i + 1, n);
            } else if keys.is_empty() || rng.chance(1, 6) {
                r[f.col] = Lit::Null;
            } else if f.parent == def.name && rng.chance(1, 2) {
                // self-reference: grow deep chains (parent = one of the most recently inserted keys),
                // so that cascades have to recurse through several levels of the same table
                let recent = &keys[keys.len().saturating_sub(3)..];
                r[f.col] = rng.pick(recent).clone();
            } else {
                r[f.col] = rng.pick(&keys).clone();
            }
        }
    }
    Op::insert(&def.name, &op.cols, rows).fault(&note)
}

/// `count` rows with ascending primary key starting at `start` (bulk load).
pub fn gen_bulk_insert(rng: &mut Rng, sw: &Swarm, def: &TableDef, start: i64, count: usize) -> Op {
    let mut rows = Vec::with_capacity(count);
    for i in 0..count {
        let mut row: Vec<Lit> = def.cols.iter().map(|c| gen_value(rng, sw, c, true)).collect();
        if let Some(&k) = def.pk.first() {
            row[k] = Lit::Int(start + i as i64);
        }
        for ch in &def.checks {
            if let Check::ColLit { col, op, lit } = ch {
                if let Lit::Int(v) = row[*col] {
                    if !op.eval(v, *lit) && !def.pk.contains(col) {
                        row[*col] = Lit::Null;
                    }
                }
            }
        }
        rows.push(row);
    }
    Op::insert(&def.name, &[], rows)
}
