//! In-memory disk behind the real `StorageBackend` / `StorageFile` trait seam.
//!
//! Every disk-backed index of a simulated run lives here: page traffic is observable, isolated per
//! run and replayable, and the *persisted bytes* can be read back by an independent parser.

use std::collections::BTreeMap;
use std::sync::{Arc, Mutex};
use vibesql_storage::{StorageBackend, StorageError, StorageFile};

#[derive(Default, Debug, Clone)]
pub struct DiskStats {
    pub reads: u64,
    pub writes: u64,
    pub syncs: u64,
    pub bytes_written: u64,
    pub files_created: u64,
    pub files_deleted: u64,
}

#[derive(Default)]
struct Inner {
    files: BTreeMap<String, Arc<Mutex<Vec<u8>>>>,
    stats: DiskStats,
}

#[derive(Clone, Default)]
pub struct SimDisk {
    inner: Arc<Mutex<Inner>>,
}

pub struct SimFile {
    data: Arc<Mutex<Vec<u8>>>,
    disk: Arc<Mutex<Inner>>,
}

impl SimDisk {
    pub fn new() -> SimDisk {
        SimDisk::default()
    }
    pub fn stats(&self) -> DiskStats {
        self.inner.lock().unwrap().stats.clone()
    }
    pub fn file_names(&self) -> Vec<String> {
        self.inner.lock().unwrap().files.keys().cloned().collect()
    }
    /// Snapshot of the persisted bytes of a file.
    pub fn bytes(&self, path: &str) -> Option<Vec<u8>> {
        self.inner.lock().unwrap().files.get(path).map(|f| f.lock().unwrap().clone())
    }
    pub fn as_backend(&self) -> Arc<dyn StorageBackend> {
        Arc::new(self.clone())
    }
}

impl StorageFile for SimFile {
    fn read_at(&mut self, offset: u64, buf: &mut [u8]) -> Result<usize, StorageError> {
        self.disk.lock().unwrap().stats.reads += 1;
        let d = self.data.lock().unwrap();
        let off = offset as usize;
        if off >= d.len() {
            return Ok(0);
        }
        let n = buf.len().min(d.len() - off);
        buf[..n].copy_from_slice(&d[off..off + n]);
        Ok(n)
    }
    fn write_at(&mut self, offset: u64, buf: &[u8]) -> Result<usize, StorageError> {
        {
            let mut s = self.disk.lock().unwrap();
            s.stats.writes += 1;
            s.stats.bytes_written += buf.len() as u64;
        }
        let mut d = self.data.lock().unwrap();
        let end = offset as usize + buf.len();
        if d.len() < end {
            d.resize(end, 0);
        }
        d[offset as usize..end].copy_from_slice(buf);
        Ok(buf.len())
    }
    fn sync_all(&mut self) -> Result<(), StorageError> {
        self.disk.lock().unwrap().stats.syncs += 1;
        Ok(())
    }
    fn sync_data(&mut self) -> Result<(), StorageError> {
        self.disk.lock().unwrap().stats.syncs += 1;
        Ok(())
    }
    fn size(&self) -> Result<u64, StorageError> {
        Ok(self.data.lock().unwrap().len() as u64)
    }
}

impl StorageBackend for SimDisk {
    fn create_file(&self, path: &str) -> Result<Box<dyn StorageFile>, StorageError> {
        let mut g = self.inner.lock().unwrap();
        g.stats.files_created += 1;
        let data = Arc::new(Mutex::new(Vec::new()));
        g.files.insert(path.to_string(), data.clone());
        Ok(Box::new(SimFile { data, disk: self.inner.clone() }))
    }
    fn open_file(&self, path: &str) -> Result<Box<dyn StorageFile>, StorageError> {
        let mut g = self.inner.lock().unwrap();
        let data = match g.files.get(path) {
            Some(d) => d.clone(),
            None => {
                g.stats.files_created += 1;
                let d = Arc::new(Mutex::new(Vec::new()));
                g.files.insert(path.to_string(), d.clone());
                d
            }
        };
        Ok(Box::new(SimFile { data, disk: self.inner.clone() }))
    }
    fn delete_file(&self, path: &str) -> Result<(), StorageError> {
        let mut g = self.inner.lock().unwrap();
        g.stats.files_deleted += 1;
        match g.files.remove(path) {
            Some(_) => Ok(()),
            None => Err(StorageError::IoError(format!("no such file: {}", path))),
        }
    }
    fn file_exists(&self, path: &str) -> bool {
        self.inner.lock().unwrap().files.contains_key(path)
    }
    fn file_size(&self, path: &str) -> Result<u64, StorageError> {
        match self.inner.lock().unwrap().files.get(path) {
            Some(f) => Ok(f.lock().unwrap().len() as u64),
            None => Err(StorageError::IoError(format!("no such file: {}", path))),
        }
    }
}
