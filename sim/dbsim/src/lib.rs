pub mod driver;
pub mod gen;
pub mod ops;
pub mod props;
pub mod scen_hist;
pub mod snapshot;
pub mod sut;
pub mod world;
