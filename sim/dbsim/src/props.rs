//! Property table: which scenario decides which property, with which swarm emphasis and budgets.

use crate::driver::{minimise, run_generated, run_ops, ReplayDoc};
use crate::gen::Swarm;
use crate::scen_hist::Hist;
use simcore::runner::{RunReport, Violation};

pub struct PropSpec {
    pub id: &'static str,
    pub scenario: &'static str,
    pub label: u64,
    pub runs_quick: u64,
    pub runs_thorough: u64,
    pub level: &'static str,
    pub rule: &'static str,
    pub assumptions: &'static [&'static str],
    pub stubs: &'static [&'static str],
    pub quarantine_note: &'static str,
}

const RULE_HIST: &str = "each run = one seeded swarm configuration + one seeded operation history (DDL, multi-row DML with faults placed at seeded row positions, transactions) executed step by step on the real engine; an evaluation is one oracle comparison after a step; a run is non-trivial if it contains >=1 successful state change and >=1 non-vacuous oracle evaluation; distinct = distinct hash of the sequence of (operation kind, outcome class, reach probes hit)";

pub fn spec(id: &str) -> Option<PropSpec> {
    let s = |id, label, rq, rt, level, assumptions: &'static [&'static str], qn| PropSpec {
        id,
        scenario: "hist",
        label,
        runs_quick: rq,
        runs_thorough: rt,
        level,
        rule: RULE_HIST,
        assumptions,
        stubs: &[],
        quarantine_note: qn,
    };
    Some(match id {
        "C09" => s("C09", 9, 20000, 400000, "exploration", &["the set of affected rows and the new row images are taken from the SUT's own SELECT on the pre-state (the property is agreement between the DML and the query reading of the predicate)", "values compared after numeric normalisation (integer variants and integral floats by value)"], ""),
        "C10" => s("C10", 10, 20000, 400000, "exploration", &["declared constraints are tracked from the CREATE TABLE / CREATE UNIQUE INDEX statements the SUT accepted", "CHECK constraints are restricted to integer comparisons the harness evaluates itself"], ""),
        "C11" => s("C11", 11, 15000, 300000, "fault_enumeration", &["observable state = per-table schema + row multiset, catalog listings (tables, indexes, views, triggers) and index-driven reads on every table that has a user index"], ""),
        "C15" => s("C15", 15, 10000, 200000, "exploration", &["'rebuild from scratch' for a user index = DROP INDEX + the same CREATE INDEX on a clone of the database", "row positions inside one key compared as sets"], ""),
        "C24" => s("C24", 24, 20000, 400000, "exploration", &["decided in its stateful reading only: statements reachable by the workload generator against states reached by histories", "harness profile has overflow checks on, so unchecked integer arithmetic panics instead of wrapping"], ""),
        _ => return None,
    })
}

fn tweak_for(prop: &str) -> impl Fn(&mut Swarm) {
    let p = prop.to_string();
    move |sw: &mut Swarm| match p.as_str() {
        "C11" => {
            if sw.fault_pct < 25 {
                sw.fault_pct = 50;
            }
            sw.max_rows_stmt = sw.max_rows_stmt.max(3);
        }
        "C10" => {
            sw.with_pk = true;
            sw.with_unique = true;
            if sw.fault_pct == 0 {
                sw.fault_pct = 25;
            }
        }
        "C15" => {
            sw.with_indexes = true;
            sw.w_index = 4;
        }
        "C24" => {
            sw.extreme_ints = true;
        }
        _ => {}
    }
}

pub fn run(prop: &str, run_seed: u64, guards: &[String]) -> RunReport {
    match prop {
        "C09" | "C10" | "C11" | "C15" | "C24" => run_generated::<Hist>(prop, run_seed, guards, tweak_for(prop)),
        _ => panic!("unknown property {}", prop),
    }
}

pub fn replay(doc: &ReplayDoc) -> (Option<Violation>, u64) {
    match doc.scenario.as_str() {
        "hist" => run_ops::<Hist>(&doc.property, &doc.swarm, &doc.ops),
        other => panic!("unknown scenario {}", other),
    }
}

pub fn minimise_doc(doc: &ReplayDoc) -> ReplayDoc {
    match doc.scenario.as_str() {
        "hist" => minimise::<Hist>(doc),
        _ => doc.clone(),
    }
}
