//! Property table: which scenario decides which property, with which swarm emphasis and budgets.

use crate::driver::{minimise, run_generated, run_ops, ReplayDoc};
use crate::gen::Swarm;
use crate::scen_bt::Bt;
use crate::scen_cache::Cache;
use crate::scen_ddl::Ddl;
use crate::scen_hist::Hist;
use crate::scen_mask::Mask;
use crate::scen_sec::Sec;
use crate::scen_trig::Trg;
use crate::scen_twin::Twin;
use simcore::runner::{RunReport, Violation};

pub struct PropSpec {
    pub id: &'static str,
    pub scenario: &'static str,
    pub label: u64,
    pub runs_quick: u64,
    pub runs_thorough: u64,
    pub level: &'static str,
    pub rule: &'static str,
    pub assumptions: &'static [&'static str],
    pub stubs: &'static [&'static str],
    pub quarantine_note: &'static str,
}

const RULE_HIST: &str = "each run = one seeded swarm configuration + one seeded operation history (DDL, multi-row DML with faults placed at seeded row positions, transactions) executed step by step on the real engine; an evaluation is one oracle comparison after a step; a run is non-trivial if it contains >=1 successful state change and >=1 non-vacuous oracle evaluation; distinct = distinct hash of the sequence of (operation kind, outcome class, reach probes hit)";

const RULE_TWIN: &str = "each run = one seeded swarm configuration + one seeded history applied to twin Database instances that differ in exactly one respect; after every state-changing step the base tables are compared and 2-5 generated read-only probes are executed on all twins (multiset equality; sequence equality when ORDER BY covers the select list); an evaluation is one such comparison; non-trivial = >=1 successful state change and >=1 comparison; distinct = distinct hash of the sequence of (operation kind, outcome class, reach probes)";

const RULE_MASK: &str = "each run = one seeded swarm configuration + one seeded DML history on one database; after every state-changing step 2-5 generated probe families are executed on the unchanged state under every execution configuration of the property (guarded switch masks / parallel thresholds x schedules) and in every equivalent rendering; an evaluation is one pairwise comparison of two executions; non-trivial = >=1 successful state change and >=1 comparison; distinct = distinct hash of the sequence of (operation kind, outcome class, reach probes)";

pub fn spec(id: &str) -> Option<PropSpec> {
    let s = |id, label, rq, rt, level, assumptions: &'static [&'static str], qn| PropSpec {
        id,
        scenario: "hist",
        label,
        runs_quick: rq,
        runs_thorough: rt,
        level,
        rule: RULE_HIST,
        assumptions,
        stubs: &[],
        quarantine_note: qn,
    };
    let t = |id, label, rq, rt, assumptions: &'static [&'static str]| PropSpec {
        id,
        scenario: "twin",
        label,
        runs_quick: rq,
        runs_thorough: rt,
        level: "exploration",
        rule: RULE_TWIN,
        assumptions,
        stubs: &[],
        quarantine_note: "",
    };
    let m = |id, label, rq, rt, assumptions: &'static [&'static str], stubs: &'static [&'static str]| PropSpec {
        id,
        scenario: "mask",
        label,
        runs_quick: rq,
        runs_thorough: rt,
        level: "exploration",
        rule: RULE_MASK,
        assumptions,
        stubs,
        quarantine_note: "",
    };
    Some(match id {
        "C34" => PropSpec {
            id: "C34",
            scenario: "trig",
            label: 34,
            runs_quick: 20000,
            runs_thorough: 300000,
            level: "exploration",
            rule: "each run = target table t(id, v, w), audit table, 2-5 seeded triggers (BEFORE/AFTER x INSERT/UPDATE/UPDATE OF v/DELETE x ROW/STATEMENT, optional WHEN on w, a seeded subset with a failing body) and a seeded history of single/multi-row INSERT, UPDATE (of v or of the key) and DELETE statements, some matching zero rows; an evaluation is one comparison of the audit table with the model's expected firings (or one unchanged-state check after a failing trigger); non-trivial = >=1 successful statement and >=1 comparison; distinct = distinct hash of (statement kinds, outcome classes, reach probes)",
            assumptions: &["affected rows and their new images are read with the SUT's own SELECT on the pre-state", "triggers are created through CreateTriggerStmt values, as the repository's own trigger tests do (the SQL text form of CREATE TRIGGER stores the body as debug-printed tokens and cannot be executed)", "UPDATE OF v triggers: the workload either assigns v a different value or does not assign it, so 'column in the SET list' and 'value changed' coincide", "WHEN conditions test column w, which the workload's UPDATEs never assign (OLD.w = NEW.w)", "statement-level triggers are expected once per statement, also when no row matches"],
            stubs: &[],
            quarantine_note: "",
        },
        "C33" => PropSpec {
            id: "C33",
            scenario: "ddl",
            label: 33,
            runs_quick: 8000,
            runs_thorough: 300000,
            level: "exploration",
            rule: "each run = one seeded history of CREATE/DROP TABLE, CREATE/DROP INDEX, ALTER TABLE (ADD/DROP/CHANGE COLUMN, RENAME TO, ADD/DROP CONSTRAINT), INSERT/UPDATE/DELETE and index-driven probes over a pool of 3 table, 7 column and 4 index names written in random identifier case; an evaluation is one comparison after a step (catalog vs storage vs accepted-statement model listing, declared vs stored columns, row arity, queryability, index registries vs existing objects, index contents vs the same CREATE INDEX on the current rows, constraint hash indexes vs rebuild, retained-column data across ALTER, probe with vs without index scans); non-trivial = >=1 accepted statement and >=1 comparison; distinct = distinct hash of (operation kinds, outcome classes, reach probes)",
            assumptions: &["the model of which objects must exist is built only from statements the engine accepted; a refused statement is not second-guessed, except CREATE TABLE of a name no table has", "an index that the engine drops on its own together with its column or table is not demanded back", "column rename is exercised through CHANGE COLUMN (RENAME COLUMN is not in the grammar)", "index scans are switched off for the comparison probe through guarded hook H5 (INDEX_SCAN)"],
            stubs: &[],
            quarantine_note: "",
        },
        "C26" => PropSpec {
            id: "C26",
            scenario: "sec",
            label: 26,
            runs_quick: 20000,
            runs_thorough: 300000,
            level: "exploration",
            rule: "each run = one database with security enabled (two tables with optional indexes, a view, two roles) and a seeded history of GRANT/REVOKE (as ADMIN), SET ROLE and statements under the current non-admin role in 26 shapes (scans, index scans, aggregates, joins, IN/NOT IN/EXISTS/scalar subqueries, derived tables, CTEs, UNION, a view, INSERT VALUES, INSERT..SELECT on the bulk-transfer and general paths, UPDATE/DELETE with subqueries); an evaluation is one statement whose role lacks a needed privilege: it must fail and leave both tables unchanged; non-trivial = >=1 accepted GRANT/REVOKE and >=1 evaluation; distinct = distinct hash of (operation kinds, outcome classes, reach probes)",
            assumptions: &["one-sided, as the property is stated: a statement refused although the model holds the privileges is counted (granted_but_refused) but not reported", "needed privileges: SELECT on every table a statement reads (also through the view and in subqueries of DML), INSERT/UPDATE/DELETE on the target; a WHERE clause on the target of UPDATE/DELETE does not by itself require SELECT", "statements are evaluated only while both tables are non-empty (with an empty input a statement may finish without reading the other table)", "grants to PUBLIC, role membership and WITH GRANT OPTION are not generated"],
            stubs: &[],
            quarantine_note: "",
        },
        "C25" => PropSpec {
            id: "C25",
            scenario: "cache",
            label: 25,
            runs_quick: 20000,
            runs_thorough: 300000,
            level: "exploration",
            rule: "each run = one database (t0(k, s), t1(k, v), a view over t0), one QueryResultCache of seeded capacity (2 / 8 / 1000) and a seeded history of INSERT/UPDATE/DELETE and cached reads; query texts vary string literals in case and inner white space ('a' / 'A' / 'a b' / 'a  b'; also literals ending in a backslash or containing quotes, several literals per statement, and re-issued near-duplicates in which one literal is replaced by such a variant), keyword and identifier case and layout, and reach the tables through joins, IN/EXISTS/scalar subqueries, derived tables, CTEs, UNION, HAVING subqueries and the view; an evaluation is one cache hit compared with direct execution of the same text on the current database; non-trivial = >=1 successful write and >=1 evaluated hit; distinct = distinct hash of (operation kinds, outcome classes, hit/miss sequence)",
            assumptions: &["the protocol around the cache (lookup by QuerySignature::from_sql, store with extract_tables_from_select, invalidate_table(target) on INSERT/UPDATE/DELETE) re-states the repository's sqllogictest adapter, the only caller in the tree (a test-support file); cache, signature and extractor are the real library code", "no foreign keys or triggers: writes change only their target table", "results compared as multisets"],
            stubs: &["cache protocol glue of tests/sqllogictest/db_adapter.rs (re-stated in the harness)"],
            quarantine_note: "",
        },
        "C17" => PropSpec {
            id: "C17",
            scenario: "bt",
            label: 17,
            runs_quick: 25000,
            runs_thorough: 400000,
            level: "exploration",
            rule: "each run = one seeded key schema (INTEGER degree 215 / VARCHAR(50) / VARCHAR(200) degree 5 / composite), optional bulk load, then up to 400 seeded operations in ramp-up / drain / mixed / read-heavy phases on the real BTreeIndex + PageManager over the simulated disk; an evaluation is one answer compared with the BTreeMap model or one structure check of the persisted bytes; non-trivial = >=1 successful mutation and >=1 comparison; distinct = distinct hash of the operation-name sequence and reach probes",
            assumptions: &["reference model BTreeMap<Vec<SqlValue>, Vec<RowId>> uses SqlValue's own total order for keys (the order the tree is specified to keep)", "at most 40 row ids per key (a key's row-id list must fit into one 4 KiB page)", "the page-manager file is not re-opened (PageManager and BTreeIndex metadata both claim page 0; re-opening is outside the statement)", "no I/O faults are injected: the listed properties are silent about index-file I/O errors"],
            stubs: &["file system under the index file (SimDisk behind the real StorageBackend/StorageFile traits)"],
            quarantine_note: "",
        },
        "C03" => m("C03", 3, 15000, 300000, &["the gate is switched with the guarded hook H4 (vibesql_types::verif::skip(COLUMNAR)); the hook's hit counter shows how often the gated path was really taken", "probes are single-table COUNT/SUM/AVG/MIN/MAX (also SUM(a*b), SUM(a+k)) with WHERE restricted to what the gate admits, optional HAVING/LIMIT/OFFSET", "results compared by value (bit-exact for non-integral numbers; the variant tag of a numeric result - Integer/Bigint, Float/Double/Numeric - is not compared: the paths document different result types for AVG)", "a typed table tf (DOUBLE PRECISION, NUMERIC, REAL, VARCHAR, DATE, BOOLEAN columns; 1000-3072 rows; values and partial sums exact in f64, a third not representable in f32) in one run of six: SUM/AVG/MIN/MAX/COUNT over every column type, id ranges selecting exact multiples of the SIMD batch size, float columns against integer and decimal literals"], &[]),
        "C05" => m("C05", 5, 10000, 200000, &["'definitional nested evaluation' = all guarded switches H5 set: no join reordering, no hash join (nested loop only), no IN/EXISTS rewrite, no semi-join transform, no index-backed IN fast path, no index scan", "the cross-rendering half (IN/EXISTS/NOT IN/NOT EXISTS, comma-join permutations, INNER JOIN vs cross product + WHERE, derived-table wrapping) is metamorphic generation riding on the same runs", "NOT IN renderings are compared only with the subquery column restricted to non-NULL values and the outer column non-NULL, where the semantics coincide"], &[]),
        "C04" => m("C04", 4, 6000, 100000, &["rayon is replaced by a deterministic single-thread stand-in with rayon's documented semantics (order-preserving collect, stable par_sort_by); per combinator call the stand-in draws the execution order / split tree from a seeded schedule stream", "thresholds are switched per thread through hook H3 (never / always / 7)", "no claim about data races between real threads: the parallel closures contain no unsafe code and capture only shared references"], &["rayon (deterministic stand-in /verif/sim/simrayon)"]),
        "C32" => m("C32", 32, 2500, 60000, &["views are created in the history and stay while the data changes; every probe family = one outer query over (a) the view, (b) the defining query inlined as a derived table, (c) the defining query as a CTE; all three must agree after every step", "every view exposes two columns a, b; definitions: filtered projection, explicit column list, expression column, GROUP BY aggregate, two-table join, view over view, DISTINCT", "dropping a view that another view depends on is not generated"], &[]),
        "C02" => t("C02", 2, 20000, 400000, &["twin 0 receives every CREATE/DROP INDEX of the history, twin 1 none; a statement rejected by twin 0 (e.g. by a UNIQUE index) is not applied to twin 1, so both stay in the same state", "probes cover a generated SQL subset (single table with all comparison operators/BETWEEN/IN/AND/OR, ORDER BY/LIMIT, DISTINCT, aggregates, GROUP BY, 2-table joins, IN/EXISTS/NOT IN/NOT EXISTS/scalar subqueries, set operations, derived tables)", "ANALYZE <table> is handed to AnalyzeExecutor directly (the parser of the pinned tree has no such statement); one run in ~12 builds an analysed 1200-row table with an index on the filtered and another on the ORDER BY column, so that the cost-based index selection is exercised"]),
        "C16" => t("C16", 16, 12000, 200000, &["twin 0 Database::new() (in-memory indexes); twin 1 Database::with_config(memory budget 1..4096 bytes, SpillToDisk); twin 2 disk-backed from CREATE INDEX on (guarded hook H2, the 100000-row threshold is otherwise out of reach); twins 1 and 2 keep their index files on a simulated disk behind the real StorageBackend trait (hook H1)", "same probes as C02; statements must be accepted/rejected alike (unique-index violations)", "transactions are not part of this workload"]),
        "C18" => t("C18", 18, 12000, 200000, &["the restarted twin is saved to a real file under /dev/shm, dropped, and re-created with load_*; the twin that never restarts is the reference", "column types limited to INTEGER and VARCHAR in this scenario (the full persisted type set is exercised by the 'types' sub-scenario)", "one run in ~11 adds a 5000-8000-row table of blank-padded CHAR columns (an image of more than a megabyte that compresses by far more than an order of magnitude) and reloads it in the compressed format"]),
        "C19" => t("C19", 19, 12000, 200000, &["oracle restricted to what the statement promises: tables, columns (name, type) and exactly the same rows", "after a reload the history continues on both twins; a reloaded twin that accepts/rejects differently (constraints are not promised) ends the run without alarm"]),
        "C09" => s("C09", 9, 30000, 500000, "exploration", &["the set of affected rows and the new row images are taken from the SUT's own SELECT on the pre-state (the property is agreement between the DML and the query reading of the predicate)", "values compared after numeric normalisation (integer variants and integral floats by value)"], ""),
        "C10" => s("C10", 10, 40000, 600000, "exploration", &["declared constraints are tracked from the CREATE TABLE / CREATE UNIQUE INDEX statements the SUT accepted", "CHECK constraints are restricted to integer comparisons the harness evaluates itself"], ""),
        "C11" => s("C11", 11, 15000, 250000, "fault_enumeration", &["observable state = per-table schema + row multiset, catalog listings (tables, indexes, views, triggers) and index-driven reads on every table that has a user index"], ""),
        "C12" => s("C12", 12, 30000, 500000, "exploration", &["single-column foreign keys onto INTEGER primary keys; parent/child chains up to 3 tables, optional self-reference, a child with two foreign keys onto two parents (NO ACTION / RESTRICT) or onto one parent with equal actions", "reference model of ON DELETE / ON UPDATE actions is applied to the rows the SUT's own SELECT reports as affected; the model abstains (counted as c12.unmodelled.*) on self-referencing restrict and on key updates of self-referencing tables", "one-sided: an accepted statement must leave the model's post-state and no orphan; a refused statement is not second-guessed"], ""),
        "C13" => s("C13", 13, 25000, 400000, "exploration", &["observable state = per-table schema + row multiset, catalog listings and index-driven reads on every index; the snapshot before BEGIN is compared with the one after ROLLBACK", "transactions are not nested; savepoints are exercised under C14"], ""),
        "C14" => s("C14", 14, 40000, 600000, "exploration", &["reference model = stack of (savepoint name, table contents read from the SUT when the savepoint was created)", "savepoint names are unique among live savepoints; a destroyed name may be reused", "histories bounded by the swarm step count (<= 48)"], ""),
        "C15" => s("C15", 15, 40000, 500000, "exploration", &["'rebuild from scratch' for a user index = DROP INDEX + the same CREATE INDEX on a clone of the database", "row positions inside one key compared as sets"], ""),
        "C24" => s("C24", 24, 14000, 500000, "exploration", &["decided in its stateful reading only: statements reachable by the workload generator against states reached by histories; one statement in four is a hostile statement (extreme integer arguments, multi-byte strings at slicing positions, narrowing casts, division by zero, malformed temporal literals, missing objects, wrong arity)", "a read-only hostile statement runs on a copy of the database in a watchdog thread; not returning within 120 s is a violation (c24.hang)", "harness profile has overflow checks on, so unchecked integer arithmetic panics instead of wrapping", "one run in three creates a table of 2-9 integers around i64::MAX / n; SUM over it (and over filtered subsets) must equal the sum the harness computes in 128 bits, or be NULL / an error when that does not fit (c24.exact_sum); with the guard of known finding C03-columnar-f64-sum a fitting sum returned as the correctly rounded Double is accepted"], ""),
        _ => return None,
    })
}

fn tweak_for(prop: &str) -> impl Fn(&mut Swarm) {
    let p = prop.to_string();
    move |sw: &mut Swarm| match p.as_str() {
        "C09" => {
            // index-driven SELECT paths are C02's business; C09 compares DML row selection with the
            // plain SELECT reading of the same predicate
            sw.with_indexes = false;
        }
        "C11" => {
            if sw.fault_pct < 25 {
                sw.fault_pct = 50;
            }
            sw.max_rows_stmt = sw.max_rows_stmt.max(3);
        }
        "C10" => {
            sw.with_pk = true;
            sw.with_unique = true;
            if sw.fault_pct == 0 {
                sw.fault_pct = 25;
            }
        }
        "C12" => {
            sw.with_fk = true;
            sw.with_check = false;
            sw.with_unique = false;
            sw.ddl_in_history = false;
            sw.with_tx = false;
            sw.w_truncate = sw.w_truncate.min(1);
            sw.domain = sw.domain.max(5).min(16);
            sw.null_pct = sw.null_pct.min(30);
            sw.w_insert = 14;
        }
        "C13" => {
            sw.with_tx = true;
            sw.w_tx = 5;
            sw.ddl_in_history = true;
            sw.with_savepoints = false;
        }
        "C14" => {
            sw.with_tx = true;
            sw.with_savepoints = true;
            sw.w_tx = 8;
            sw.steps = sw.steps.max(20);
        }
        "C15" => {
            sw.with_indexes = true;
            sw.w_index = 4;
        }
        "C24" => {
            sw.extreme_ints = true;
            if sw.max_rows_stmt == 6 && sw.domain >= 50 {
                // one run in ~27: a wide table of integers just below 2^52 (several SIMD batches whose
                // sums approach the 64-bit range), aggregated by the hostile statements
                sw.big_rows = 4200;
                sw.with_tx = false;
                sw.steps = sw.steps.min(14);
            }
        }
        "C02" => {
            if sw.guard("c02_no_ints_beyond_2_53") {
                sw.extreme_ints = false;
            }
            sw.with_indexes = true;
            sw.w_index = 4;
            sw.with_tx = false;
            sw.steps = sw.steps.max(16);
        }
        "C33" => {
            sw.steps = sw.steps.max(24);
        }
        "C26" | "C25" => {
            sw.steps = sw.steps.max(30);
        }
        "C17" => {
            sw.steps = *[30usize, 80, 150, 400].get((sw.domain % 4) as usize).unwrap_or(&150);
            if sw.max_rows_stmt == 6 && sw.null_pct >= 30 {
                // one run in ~15: a few integer keys shared by hundreds of row ids each
                sw.big_rows = 1;
                sw.steps = 1400;
            }
        }
        "C03" => {
            if sw.guard("c03_no_ints_beyond_2_53") {
                sw.extreme_ints = false;
            }
            if sw.max_rows_stmt == 5 {
                // floating point flavour (see scen_mask): room for probes after the bulk load
                sw.steps = sw.steps.max(44);
            }
            if sw.max_rows_stmt == 6 {
                // one run in 6: a bulk-loaded table (more than one SIMD type probe window, sparse columns)
                sw.big_rows = *[130usize, 260, 1100].get((sw.null_pct as usize + sw.steps) % 3).unwrap_or(&130);
                sw.fault_pct = 0;
            }
            sw.with_indexes = false;
            sw.with_tx = false;
            sw.fault_pct = sw.fault_pct.min(10);
            sw.steps = sw.steps.max(16);
        }
        "C04" if sw.max_rows_stmt == 6 && sw.domain >= 16 => {
            // one run in ~12: a table large enough for multi-chunk parallel hash builds
            sw.with_tx = false;
            sw.extreme_ints = false;
            sw.fault_pct = 0;
            sw.n_tables = 2;
            sw.big_rows = if sw.null_pct >= 30 { 2100 } else { 1100 };
            sw.steps = 14;
        }
        "C05" | "C04" => {
            sw.with_tx = false;
            sw.extreme_ints = false;
            sw.fault_pct = sw.fault_pct.min(10);
            sw.n_tables = sw.n_tables.max(2);
            sw.steps = sw.steps.max(20);
        }
        "C32" => {
            sw.with_tx = false;
            sw.extreme_ints = false;
            sw.fault_pct = sw.fault_pct.min(10);
            sw.steps = sw.steps.max(20);
        }
        "C16" => {
            if sw.max_rows_stmt >= 5 {
                // one run in 3: a tree of height >= 3 under key updates
                sw.big_rows = *[28usize, 45, 80, 140].get(((sw.null_pct as usize) + sw.steps) % 4).unwrap_or(&45);
                sw.steps = 220;
                sw.fault_pct = 0;
            }
            sw.extreme_ints = false;
            sw.with_indexes = true;
            sw.w_index = 4;
            sw.with_tx = false;
            sw.steps = sw.steps.max(16);
        }
        "C18" | "C19" => {
            sw.with_tx = false;
            sw.steps = sw.steps.max(16);
        }
        _ => {}
    }
}

pub fn run(prop: &str, run_seed: u64, guards: &[String]) -> RunReport {
    match prop {
        "C09" | "C10" | "C11" | "C12" | "C13" | "C14" | "C15" | "C24" => run_generated::<Hist>(prop, run_seed, guards, tweak_for(prop)),
        "C34" => run_generated::<Trg>(prop, run_seed, guards, tweak_for(prop)),
        "C17" => run_generated::<Bt>(prop, run_seed, guards, tweak_for(prop)),
        "C33" => run_generated::<Ddl>(prop, run_seed, guards, tweak_for(prop)),
        "C25" => run_generated::<Cache>(prop, run_seed, guards, tweak_for(prop)),
        "C26" => run_generated::<Sec>(prop, run_seed, guards, tweak_for(prop)),
        "C03" | "C04" | "C05" | "C32" => run_generated::<Mask>(prop, run_seed, guards, tweak_for(prop)),
        "C02" | "C16" | "C18" | "C19" => run_generated::<Twin>(prop, run_seed, guards, tweak_for(prop)),
        _ => panic!("unknown property {}", prop),
    }
}

pub fn replay(doc: &ReplayDoc) -> (Option<Violation>, u64) {
    match doc.scenario.as_str() {
        "hist" => run_ops::<Hist>(&doc.property, &doc.swarm, &doc.ops),
        "twin" => run_ops::<Twin>(&doc.property, &doc.swarm, &doc.ops),
        "mask" => run_ops::<Mask>(&doc.property, &doc.swarm, &doc.ops),
        "bt" => run_ops::<Bt>(&doc.property, &doc.swarm, &doc.ops),
        "ddl" => run_ops::<Ddl>(&doc.property, &doc.swarm, &doc.ops),
        "cache" => run_ops::<Cache>(&doc.property, &doc.swarm, &doc.ops),
        "sec" => run_ops::<Sec>(&doc.property, &doc.swarm, &doc.ops),
        "trig" => run_ops::<Trg>(&doc.property, &doc.swarm, &doc.ops),
        other => panic!("unknown scenario {}", other),
    }
}

pub fn minimise_doc(doc: &ReplayDoc) -> ReplayDoc {
    match doc.scenario.as_str() {
        "hist" => minimise::<Hist>(doc),
        "twin" => minimise::<Twin>(doc),
        "mask" => minimise::<Mask>(doc),
        "bt" => minimise::<Bt>(doc),
        "ddl" => minimise::<Ddl>(doc),
        "cache" => minimise::<Cache>(doc),
        "sec" => minimise::<Sec>(doc),
        "trig" => minimise::<Trg>(doc),
        _ => doc.clone(),
    }
}
