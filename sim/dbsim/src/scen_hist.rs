//! General single-instance history scenario.
//!
//! One `Database`, a seeded history of DDL/DML/transaction operations with faults placed inside
//! statements; after every step the oracles of the property being checked are evaluated:
//!
//! * C09  DML acts on exactly the rows its WHERE clause selects (set taken from the SUT's own SELECT)
//! * C10  declared constraints hold after every statement, success or failure
//! * C11  an erroring statement leaves the observable snapshot unchanged; Ok multi-row INSERT adds all
//! * C15  constraint hash indexes and user indexes equal a rebuild from scratch
//! * C24  nothing panics; the database stays usable

use crate::driver::{Ctx, Scenario, Step};
use crate::gen::*;
use crate::ops::*;
use crate::snapshot::*;
use crate::sut::{Out, Sut};
use crate::world::World;
use simcore::Rng;
use std::collections::BTreeMap;
use vibesql_types::SqlValue;

pub struct Hist {
    pub sut: Sut,
    pub world: World,
    pub sw: Swarm,
    setup: Vec<Op>,
    /// C13: observable snapshot taken just before BEGIN
    begin_snap: Option<Snap>,
    /// world (declared schema) at BEGIN, restored on ROLLBACK
    begin_world: Option<Box<World>>,
    /// C14: model of the savepoint stack: (name, table contents when it was created)
    sp_stack: Vec<(String, BTreeMap<String, TableSnap>, bool)>,
    dead_savepoints: Vec<String>,
    /// C24: hostile statements (extreme literals, multi-byte strings, missing objects) are mixed in
    hostile: bool,
    /// C11: a VARCHAR staging table feeding a DATE/TIME table through INSERT ... SELECT (values that
    /// only fail when the stored form is built)
    dates: bool,
    next_date_key: i64,
    /// C09: one table keyed by a SMALLINT primary key (integer literals are INTEGERs: the key lookup
    /// of UPDATE/DELETE must not confuse 65537 with 1)
    small_key: bool,
}

/// One statement built to reach value-dependent failure modes: slicing inside multi-byte characters,
/// extreme integer arguments, division by zero, narrowing casts, missing objects, wrong arity.
pub fn gen_hostile(rng: &mut Rng, def: &TableDef) -> String {
    let t = &def.name;
    let any = rng.pick(&def.cols).clone();
    let ints = ["0", "-1", "1", "2", "9223372036854775807", "-9223372036854775807", "(-9223372036854775807 - 1)", "2147483648", "32768"];
    let strs = ["'é'", "'héllo wörld'", "'😀😀'", "''", "'a'", "'%_'", "'12345678é'", "'\\'"];
    let i = |rng: &mut Rng| rng.pick(&ints).to_string();
    let st = |rng: &mut Rng| rng.pick(&strs).to_string();
    match rng.below(30) {
        0 => format!("SELECT TIME '00:00:00.{}'", rng.pick(&["12345678é", "1é", "é", "999999999999", "-1"])),
        1 => format!("SELECT TIMESTAMP '2020-01-01 {}'", rng.pick(&["00:00:00.12345678é", "25:00:00", "00:00:00.1234567€", "é"])),
        2 => format!("SELECT DATE '{}'", rng.pick(&["2020-0é-01", "2020-13-01", "2020-02-30", "é020-01-01", "99999-01-01", "0000-00-00"])),
        3 => format!("SELECT CAST({} AS {})", st(rng), rng.pick(&["TIME", "DATE", "TIMESTAMP", "INTEGER", "SMALLINT", "DOUBLE PRECISION", "BOOLEAN", "CHAR(1)", "VARCHAR(1)"])),
        4 => format!("SELECT SUBSTRING({} FROM {} FOR {})", st(rng), i(rng), i(rng)),
        5 => format!("SELECT SUBSTRING({} FROM {})", st(rng), i(rng)),
        6 => format!("SELECT {}({}, {})", rng.pick(&["LEFT", "RIGHT", "REPEAT"]), st(rng), rng.pick(&["0", "-1", "1", "2", "3", "-9223372036854775807"])),
        7 => format!("SELECT {}({}, {}, {})", rng.pick(&["LPAD", "RPAD"]), st(rng), rng.pick(&["0", "-1", "1", "3", "7"]), st(rng)),
        8 => format!("SELECT {} {} {}", i(rng), rng.pick(&["/", "%", "+", "-", "*"]), i(rng)),
        9 => format!("SELECT {}({})", rng.pick(&["ABS", "-", "SIGN", "SQRT", "LN", "EXP", "ROUND", "FLOOR", "CEIL"]), i(rng)),
        10 => format!("SELECT CAST({} AS {})", i(rng), rng.pick(&["SMALLINT", "INTEGER", "BIGINT", "REAL", "CHAR(2)", "VARCHAR(3)", "BOOLEAN", "DATE"])),
        11 => format!("SELECT CAST({} AS {})", rng.pick(&["1e400", "1e19", "-1e19", "1e308 * 10", "0.5", "-0.0"]), rng.pick(&["INTEGER", "BIGINT", "SMALLINT", "REAL", "NUMERIC(3,1)"])),
        12 => format!("SELECT * FROM {} LIMIT {} OFFSET {}", t, rng.pick(&["0", "1", "9223372036854775807", "-1"]), rng.pick(&["0", "9223372036854775807", "-1"])),
        13 => format!("SELECT {} FROM {} ORDER BY {}", any.name, t, rng.pick(&["99", "0", "-1", "1"])),
        14 => format!("SELECT {} FROM {} GROUP BY {}", any.name, t, rng.pick(&["99", "0", "1"])),
        15 => format!("SELECT {} {} {}", st(rng), rng.pick(&["LIKE", "NOT LIKE"]), rng.pick(&["'_'", "'%é'", "'\\'", "'%\\'", "'[a'", "'é_'", "''"])),
        16 => format!("SELECT {}({})", rng.pick(&["UPPER", "LOWER", "CHAR_LENGTH", "LENGTH", "TRIM", "REVERSE", "ASCII"]), st(rng)),
        17 => format!("SELECT POSITION({} IN {})", st(rng), st(rng)),
        18 => format!("SELECT TRIM({} {} FROM {})", rng.pick(&["BOTH", "LEADING", "TRAILING"]), st(rng), st(rng)),
        19 => format!("SELECT {}({}, {}, {})", rng.pick(&["REPLACE", "SUBSTR", "INSTR", "LOCATE"]), st(rng), st(rng), rng.pick(&["''", "'é'", "1", "0", "-1"])),
        20 => format!("INSERT INTO {} (nosuch) VALUES (1)", t),
        21 => format!("INSERT INTO {} VALUES ({})", t, (0..def.cols.len() + 1).map(|_| "1").collect::<Vec<_>>().join(", ")),
        22 => format!("SELECT * FROM nosuch{}", rng.below(3)),
        23 => format!("UPDATE {} SET {} = {} WHERE {} = {}", t, any.name, rng.pick(&["'héllo wörld, héllo wörld'", "9223372036854775807 + 1", "1 / 0", "DEFAULT"]), any.name, st(rng)),
        24 => format!("SELECT SUM({c}), AVG({c}), MIN({c}), MAX({c}) FROM {t} WHERE {c} {op} {v}", c = any.name, t = t, op = rng.pick(&["=", "<", ">=", "BETWEEN 1 AND", "IN"]), v = rng.pick(&["(1, 2)", "9223372036854775807", "'é'", "NULL"])),
        25 => format!("SELECT {c} FROM {t} WHERE {c} BETWEEN {a} AND {b}", c = any.name, t = t, a = i(rng), b = i(rng)),
        26 => format!("SELECT COALESCE(), NULLIF({}), GREATEST()", i(rng)),
        27 => format!("SELECT CASE WHEN {} THEN {} END", st(rng), i(rng)),
        28 => format!("SELECT EXTRACT({} FROM {})", rng.pick(&["YEAR", "HOUR", "SECOND", "NOSUCH"]), rng.pick(&["DATE '2020-01-01'", "TIME '01:02:03'", "'é'", "1"])),
        _ => format!("DELETE FROM {} WHERE {} {} {}", t, any.name, rng.pick(&["=", "<", "LIKE"]), st(rng)),
    }
}

/// Value-normalised canonical form: integer variants compare by value, strings by content.
pub fn vnorm(v: &SqlValue) -> String {
    match v {
        SqlValue::Null => "N".into(),
        SqlValue::Integer(i) | SqlValue::Bigint(i) => format!("I{}", i),
        SqlValue::Smallint(i) => format!("I{}", i),
        SqlValue::Unsigned(u) => format!("I{}", u),
        SqlValue::Varchar(s) | SqlValue::Character(s) => format!("S{}", s),
        SqlValue::Boolean(b) => format!("B{}", b),
        SqlValue::Double(f) | SqlValue::Numeric(f) => {
            if f.fract() == 0.0 && f.abs() < 9.0e15 {
                format!("I{}", *f as i64)
            } else {
                format!("F{:016x}", f.to_bits())
            }
        }
        SqlValue::Float(f) | SqlValue::Real(f) => {
            if f.fract() == 0.0 && f.abs() < 1.0e7 {
                format!("I{}", *f as i64)
            } else {
                // widened: Float(1.5) and Double(1.5) are the same value
                format!("F{:016x}", (*f as f64).to_bits())
            }
        }
        other => format!("{:?}", other),
    }
}
pub fn vnorm_row(r: &[SqlValue]) -> String {
    r.iter().map(vnorm).collect::<Vec<_>>().join("|")
}
pub fn vbag(rows: &[Vec<SqlValue>]) -> Vec<String> {
    let mut v: Vec<String> = rows.iter().map(|r| vnorm_row(r)).collect();
    v.sort();
    v
}
fn lit_norm(l: &Lit) -> Option<String> {
    match l {
        Lit::Null => Some("N".into()),
        Lit::Int(i) => Some(format!("I{}", i)),
        Lit::Str(s) => Some(format!("S{}", s)),
        Lit::Raw(_) => None,
    }
}

/// multiset difference/union helpers on sorted vectors
fn bag_minus(a: &[String], b: &[String]) -> Option<Vec<String>> {
    let mut m: BTreeMap<&String, i64> = BTreeMap::new();
    for x in a {
        *m.entry(x).or_insert(0) += 1;
    }
    for x in b {
        let e = m.entry(x).or_insert(0);
        *e -= 1;
        if *e < 0 {
            return None;
        }
    }
    let mut out = Vec::new();
    for (k, n) in m {
        for _ in 0..n {
            out.push(k.clone());
        }
    }
    Some(out)
}
fn bag_plus(a: &[String], b: &[String]) -> Vec<String> {
    let mut v: Vec<String> = a.iter().chain(b.iter()).cloned().collect();
    v.sort();
    v
}

impl Hist {
    fn pred_opts(&self) -> PredOpts {
        PredOpts {
            truthy: !self.sw.guard("c09_no_truthy_dml_predicate"),
            mixed_numeric: !self.sw.guard("no_mixed_numeric_literals"),
            allow_or_not: true,
        }
    }

    fn pick_table(&self, rng: &mut Rng) -> Option<TableDef> {
        let names = self.world.table_names();
        if names.is_empty() {
            return None;
        }
        Some(self.world.tables[rng.pick(&names)].clone())
    }

    // ---------------------------------------------------------------- C10
    fn check_constraints(&self, cx: &mut Ctx) -> Option<(String, String)> {
        for (name, def) in &self.world.tables {
            let rows = match table_rows(&self.sut, name) {
                Some(r) => r,
                None => continue,
            };
            cx.eval("c10.constraints");
            // NOT NULL (PK columns included)
            for (ci, c) in def.cols.iter().enumerate() {
                if c.not_null || def.pk.contains(&ci) {
                    if let Some(r) = rows.iter().find(|r| r.get(ci).map(|v| v.is_null()).unwrap_or(false)) {
                        return Some(("c10.not_null".into(), format!("table {} column {} is NOT NULL but holds NULL in row {}", name, c.name, vnorm_row(r))));
                    }
                }
            }
            // PK / UNIQUE / UNIQUE INDEX
            let mut keysets: Vec<(String, Vec<usize>, bool)> = Vec::new();
            if !def.pk.is_empty() {
                keysets.push(("PRIMARY KEY".into(), def.pk.clone(), true));
            }
            for u in &def.uniques {
                keysets.push((format!("UNIQUE{:?}", u), u.clone(), false));
            }
            for ix in self.world.indexes_of(name) {
                if ix.unique && ix.cols.iter().all(|(_, p, _)| p.is_none()) {
                    let cols: Vec<usize> = ix.cols.iter().filter_map(|(c, _, _)| def.col_index(c)).collect();
                    if cols.len() == ix.cols.len() {
                        keysets.push((format!("UNIQUE INDEX {}", ix.name), cols, false));
                    }
                }
            }
            for (what, cols, _is_pk) in keysets {
                let mut seen: BTreeMap<String, usize> = BTreeMap::new();
                for r in &rows {
                    if cols.iter().any(|c| r.get(*c).map(|v| v.is_null()).unwrap_or(true)) {
                        continue; // NULLs never collide
                    }
                    let k = cols.iter().map(|c| vnorm(&r[*c])).collect::<Vec<_>>().join("|");
                    let e = seen.entry(k.clone()).or_insert(0);
                    *e += 1;
                    if *e > 1 {
                        return Some(("c10.unique".into(), format!("table {}: duplicate key ({}) under {}", name, k, what)));
                    }
                }
            }
            // CHECK never FALSE
            for ch in &def.checks {
                for r in &rows {
                    let get = |c: usize| -> Option<i64> {
                        match r.get(c) {
                            Some(SqlValue::Integer(i)) | Some(SqlValue::Bigint(i)) => Some(*i),
                            _ => None,
                        }
                    };
                    let verdict = match ch {
                        Check::ColLit { col, op, lit } => get(*col).map(|v| op.eval(v, *lit)),
                        Check::ColCol { a, op, b } => match (get(*a), get(*b)) {
                            (Some(x), Some(y)) => Some(op.eval(x, y)),
                            _ => None,
                        },
                    };
                    if verdict == Some(false) {
                        return Some(("c10.check".into(), format!("table {}: CHECK ({}) is FALSE for row {}", name, def.check_sql(ch), vnorm_row(r))));
                    }
                }
            }
        }
        None
    }

    // ---------------------------------------------------------------- C15
    fn check_index_mirror(&self, cx: &mut Ctx) -> Option<(String, String)> {
        // constraint hash indexes
        let mut names = self.sut.db.list_tables();
        names.sort();
        for n in &names {
            let t = match self.sut.db.get_table(n) {
                Some(t) => t,
                None => continue,
            };
            let mut fresh = t.clone();
            fresh.rebuild_indexes();
            cx.eval("c15.constraint_index");
            let norm = |m: Option<&std::collections::HashMap<Vec<SqlValue>, usize>>| -> Option<Vec<(String, usize)>> {
                m.map(|m| {
                    let mut v: Vec<(String, usize)> = m.iter().map(|(k, p)| (crate::sut::canon_row(k), *p)).collect();
                    v.sort();
                    v
                })
            };
            let a = norm(t.primary_key_index());
            let b = norm(fresh.primary_key_index());
            if a != b {
                return Some(("c15.pk_index".into(), format!("table {}: primary-key index {:?} differs from rebuild {:?}", n, a, b)));
            }
            let ua: Vec<_> = t.unique_indexes().iter().map(|m| norm(Some(m))).collect();
            let ub: Vec<_> = fresh.unique_indexes().iter().map(|m| norm(Some(m))).collect();
            if ua != ub {
                return Some(("c15.unique_index".into(), format!("table {}: unique index {:?} differs from rebuild {:?}", n, ua, ub)));
            }
        }
        // user-defined indexes: same definition created from scratch on a clone
        let mut ixs: Vec<&IndexDef> = self.world.indexes.values().collect();
        ixs.sort_by(|a, b| a.name.cmp(&b.name));
        for ix in ixs {
            let live = match self.sut.db.get_index_data(&ix.name) {
                Some(d) => d,
                None => return Some(("c15.user_index_missing".into(), format!("index {} declared (CREATE INDEX succeeded) but has no data", ix.name))),
            };
            let mut clone = Sut::from_db(self.sut.db.clone());
            if !clone.exec(&format!("DROP INDEX {}", ix.name)).is_ok() {
                continue;
            }
            if !clone.exec(&ix.create_sql()).is_ok() {
                // cannot be rebuilt (e.g. unique index over data that now has duplicates): C10's business
                continue;
            }
            let fresh = match clone.db.get_index_data(&ix.name) {
                Some(d) => d,
                None => continue,
            };
            cx.eval("c15.user_index");
            let dump = |d: &vibesql_storage::IndexData| -> Vec<(String, Vec<usize>)> {
                let mut v: Vec<(String, Vec<usize>)> = d
                    .iter()
                    .map(|(k, mut p)| {
                        p.sort();
                        (crate::sut::canon_row(&k), p)
                    })
                    .filter(|(_, p)| !p.is_empty())
                    .collect();
                v.sort();
                v
            };
            let (a, b) = (dump(live), dump(fresh));
            if a != b {
                return Some(("c15.user_index".into(), format!("index {} on {}: incremental {:?} differs from rebuild {:?}", ix.name, ix.table, a, b)));
            }
        }
        None
    }
}

impl Scenario for Hist {
    const NAME: &'static str = "hist";

    fn new(prop: &str, sw: &Swarm) -> Self {
        Hist { sut: Sut::new(), world: World::default(), sw: sw.clone(), setup: Vec::new(), begin_snap: None, begin_world: None, sp_stack: Vec::new(), dead_savepoints: Vec::new(), hostile: prop == "C24", dates: prop == "C11" && sw.max_rows_stmt % 2 == 0, next_date_key: 0, small_key: prop == "C09" && sw.max_rows_stmt % 3 == 0 }
    }

    fn next_op(&mut self, rng: &mut Rng, cx: &mut Ctx) -> Option<Op> {
        // setup phase: create the tables first
        if self.world.tables.is_empty() && self.setup.is_empty() && self.world.next_name == 0 {
            if self.sw.with_fk {
                for d in gen_fk_tables(rng, &self.sw) {
                    // CREATE TABLE cannot reference the table being created: a self-referencing
                    // foreign key is added with ALTER TABLE afterwards
                    let (selfs, others): (Vec<Fk>, Vec<Fk>) = d.fks.iter().cloned().partition(|f| f.parent == d.name);
                    let mut base = d.clone();
                    base.fks = others;
                    self.setup.push(Op::create_table(base.clone()));
                    for (i, f) in selfs.iter().enumerate() {
                        let mut sql = format!("ALTER TABLE {} ADD CONSTRAINT fk_self{} FOREIGN KEY ({}) REFERENCES {}({})", d.name, i, d.cols[f.col].name, f.parent, f.parent_col);
                        if let Some(a) = f.on_delete {
                            sql.push_str(&format!(" ON DELETE {}", a.sql()));
                        }
                        if let Some(a) = f.on_update {
                            sql.push_str(&format!(" ON UPDATE {}", a.sql()));
                        }
                        base.fks.push(f.clone());
                        let mut op = Op::new(Kind::Alter, sql).table(&d.name);
                        op.def = Some(base.clone());
                        self.setup.push(op);
                    }
                }
            } else {
                let mut first: Option<TableDef> = None;
                for i in 0..self.sw.n_tables {
                    let mut d = gen_table(rng, &self.sw, &format!("t{}", i));
                    // sometimes a second table with the same columns, so that INSERT ... SELECT *
                    // (bulk-transfer shape) is possible
                    if let (Some(f), true) = (&first, self.sw.w_insert_select > 0 && i == 1 && rng.chance(2, 3)) {
                        d = f.clone();
                        d.name = format!("t{}", i);
                        if rng.chance(1, 2) {
                            d.uniques.clear();
                            d.checks.clear();
                        }
                    }
                    if first.is_none() {
                        first = Some(d.clone());
                    }
                    self.setup.push(Op::create_table(d));
                }
                if self.small_key {
                    let def = TableDef {
                        name: "tsm".into(),
                        cols: vec![ColDef { name: "c0".into(), ty: Ty::Int, not_null: true }, ColDef { name: "c1".into(), ty: Ty::Int, not_null: false }],
                        pk: vec![0],
                        ..Default::default()
                    };
                    let mut op = Op::create_table(def);
                    op.sql = "CREATE TABLE tsm (c0 SMALLINT PRIMARY KEY, c1 INTEGER)".into();
                    self.setup.push(op);
                    self.setup.push(Op::insert("tsm", &[], vec![vec![Lit::Int(1), Lit::Int(10)], vec![Lit::Int(2), Lit::Int(20)], vec![Lit::Int(-4), Lit::Int(30)], vec![Lit::Int(300), Lit::Null]]));
                }
            }
            self.setup.reverse();
            self.world.next_name = 1;
        }
        if let Some(op) = self.setup.pop() {
            return Some(op);
        }
        let sw = self.sw.clone();
        let o = self.pred_opts();
        let def = match self.pick_table(rng) {
            Some(d) => d,
            None => {
                let name = self.world.fresh_name("t");
                return Some(Op::create_table(gen_table(rng, &sw, &name)));
            }
        };
        if self.hostile && self.sw.big_rows > 0 && !self.world.tables.contains_key("wide") && self.world.next_name > 0 {
            // (C24) bulk-loaded table of wide integers
            let mut ops = vec![Op::new(Kind::Other, "CREATE TABLE wide (c0 INTEGER, c1 INTEGER)".into()).table("wide")];
            let mut left = self.sw.big_rows;
            while left > 0 {
                let k = left.min(700);
                let rows: Vec<String> = (0..k).map(|_| format!("({}, {})", (1i64 << 52) - 1 - rng.range(0, 1 << 20), rng.range(0, 9))).collect();
                ops.push(Op::new(Kind::Other, format!("INSERT INTO wide VALUES {}", rows.join(", "))).table("wide"));
                left -= k;
            }
            for q in ["SELECT SUM(c0) FROM wide", "SELECT AVG(c0) FROM wide", "SELECT SUM(c0), MIN(c0), MAX(c0), COUNT(*) FROM wide WHERE c1 >= 1", "SELECT SUM(c1) FROM wide"] {
                let mut op = Op::new(Kind::Hostile, q.to_string());
                op.fault = "hostile".into();
                ops.push(op);
            }
            self.world.tables.insert("wide".into(), TableDef { name: "wide".into(), cols: vec![ColDef { name: "c0".into(), ty: Ty::Int, not_null: false }, ColDef { name: "c1".into(), ty: Ty::Int, not_null: false }], ..Default::default() });
            ops.reverse();
            self.setup = ops;
            return self.setup.pop();
        }
        if self.hostile && self.sw.big_rows == 0 && self.sw.domain % 3 == 0 && !self.world.tables.contains_key("edge") && self.world.next_name > 0 {
            // (C24) a handful of integers around i64::MAX / n: their sum lies just inside or just outside the
            // 64-bit range, for every small n (also n that is not a power of two)
            let n = 2 + rng.usize(8) as i64;
            let sign = if rng.chance(1, 3) { -1i64 } else { 1 };
            let mut ops = vec![Op::new(Kind::Other, "CREATE TABLE edge (v INTEGER, g INTEGER)".into()).table("edge")];
            let rows: Vec<String> = (0..n)
                .map(|i| {
                    let v = if rng.chance(1, 9) { "NULL".to_string() } else { (sign * (i64::MAX / n + rng.range(-2, 3))).to_string() };
                    format!("({}, {})", v, if i < 2 { 0 } else { rng.range(0, 3) })
                })
                .collect();
            ops.push(Op::new(Kind::Other, format!("INSERT INTO edge VALUES {}", rows.join(", "))).table("edge"));
            for k in [0, 1, 2, 0] {
                let w = if k == 0 { String::new() } else { format!(" WHERE g >= {}", k) };
                let mut op = Op::new(Kind::Hostile, format!("SELECT SUM(v), COUNT(*) FROM edge{}", w));
                op.fault = "hostile".into();
                op.name = Some(format!("exact_sum:{}", k));
                ops.push(op);
            }
            self.world.tables.insert("edge".into(), TableDef { name: "edge".into(), cols: vec![ColDef { name: "v".into(), ty: Ty::Int, not_null: false }, ColDef { name: "g".into(), ty: Ty::Int, not_null: false }], ..Default::default() });
            ops.reverse();
            self.setup = ops;
            return self.setup.pop();
        }
        if self.dates && self.world.next_name > 0 && rng.chance(1, 7) {
            if self.next_date_key == 0 {
                self.next_date_key = 1;
                self.setup = vec![
                    Op::new(Kind::Other, "CREATE TABLE ts (c0 INTEGER, d VARCHAR(12), t VARCHAR(12))".into()),
                    Op::new(Kind::Other, "CREATE TABLE td (c0 INTEGER, d DATE, t TIME)".into()),
                ];
                return self.setup.pop();
            }
            self.next_date_key += 1;
            let k = self.next_date_key;
            let d = *rng.pick(&["'2024-02-29'", "'1999-12-31'", "'2023-02-30'", "'not a date'", "''", "NULL", "'2024-13-01'"]);
            let t = *rng.pick(&["'12:34:56'", "'00:00:00'", "'25:00:00'", "'x'", "NULL", "'12:34:56.5'"]);
            return Some(match rng.below(4) {
                0 | 1 => Op::new(Kind::Insert, format!("INSERT INTO ts VALUES ({}, {}, {})", k, d, t)).table("ts"),
                2 => {
                    let mut op = Op::new(Kind::InsertSelect, "INSERT INTO td SELECT * FROM ts".into()).table("td");
                    op.fault = "insert-select-dates".into();
                    op
                }
                _ => Op::new(Kind::Delete, format!("DELETE FROM ts WHERE c0 <= {}", rng.range(0, k))).table("ts"),
            });
        }
        if self.hostile && rng.chance(1, 4) {
            let mut op = Op::new(Kind::Hostile, gen_hostile(rng, &def));
            op.fault = "hostile".into();
            return Some(op);
        }
        let mut cx_veto = false;
        let no_ddl_now = self.world.in_tx && (sw.with_savepoints || sw.guard("no_ddl_in_tx"));
        let weights = [
            sw.w_insert,
            sw.w_update,
            sw.w_delete,
            if no_ddl_now { 0 } else { sw.w_truncate },
            if sw.with_indexes && !no_ddl_now { sw.w_index } else { 0 },
            if sw.with_tx { sw.w_tx } else { 0 },
            if sw.ddl_in_history && !no_ddl_now { sw.w_ddl } else { 0 },
            if sw.with_analyze && !no_ddl_now { 1 } else { 0 },
            sw.w_insert_select * 2,
            if sw.ddl_in_history && !no_ddl_now && !sw.with_fk { 1 } else { 0 },
        ];
        let chosen = match rng.weighted(&weights) {
            0 => {
                let mut op = gen_insert(rng, &sw, &self.sut, &def, None);
                if !def.fks.is_empty() {
                    op = fk_adjust_insert(rng, &self.sut, &self.world, &def, op);
                }
                op
            }
            1 | 2 if def.name == "tsm" && rng.chance(1, 2) => {
                // key lookups with literals that are out of SMALLINT range and wrap onto stored keys
                let keys = existing_values(&self.sut, "tsm", 0);
                let ints: Vec<i64> = keys.iter().filter_map(|l| if let Lit::Int(i) = l { Some(*i) } else { None }).collect();
                let base = if ints.is_empty() { 1 } else { *rng.pick(&ints) };
                let lit = base + 65536 * rng.range(-2, 2);
                let pred = if rng.chance(1, 2) { format!("c0 = {}", lit) } else { format!("{} = c0", lit) };
                if rng.chance(1, 2) {
                    Op::update("tsm", vec![("c1".into(), format!("{}", rng.range(0, 50)))], Some(pred))
                } else {
                    Op::delete("tsm", Some(pred))
                }
            }
            1 => {
                let mut op = gen_update(rng, &sw, &self.sut, &def, o);
                if sw.guard("c12_no_key_update_on_self_ref") {
                    // known finding C12-selfref-key-update: keep the referenced key of a
                    // self-referencing table out of SET lists
                    let keycols: Vec<String> = def.fks.iter().filter(|f| f.parent == def.name).map(|f| f.parent_col.clone()).collect();
                    if op.sets.iter().any(|(c, _)| keycols.contains(c)) {
                        let sets: Vec<(String, String)> = op.sets.iter().filter(|(c, _)| !keycols.contains(c)).cloned().collect();
                        if sets.is_empty() {
                            op = Op::update(&def.name, vec![("c2".into(), "c2".into())], op.pred.clone());
                        } else {
                            op = Op::update(&def.name, sets, op.pred.clone());
                        }
                        cx_veto = true;
                    }
                }
                op
            }
            2 => {
                let self_ref = def.fks.iter().any(|f| f.parent == def.name);
                if self_ref && rng.chance(1, 2) {
                    // delete an old row of a self-referencing table (likely the root of a subtree)
                    let keys = existing_values(&self.sut, &def.name, 0);
                    match keys.iter().take(3).nth(rng.usize(3.min(keys.len().max(1)))) {
                        Some(k) => Op::delete(&def.name, Some(format!("c0 = {}", k.sql()))),
                        None => gen_delete(rng, &sw, &self.sut, &def, o),
                    }
                } else {
                    gen_delete(rng, &sw, &self.sut, &def, o)
                }
            }
            3 => Op::new(Kind::Truncate, format!("TRUNCATE TABLE {}", def.name)).table(&def.name),
            4 => {
                let existing = self.world.indexes_of(&def.name).len();
                if existing > 0 && rng.chance(1, 3) {
                    let n = self.world.indexes_of(&def.name)[rng.usize(existing)].name.clone();
                    Op::new(Kind::DropIndex, format!("DROP INDEX {}", n)).named(&n)
                } else {
                    let ix = gen_index(rng, &sw, &mut self.world, &def);
                    Op::create_index(ix)
                }
            }
            5 => {
                if !self.world.in_tx {
                    Op::new(Kind::Begin, "BEGIN".into())
                } else if sw.with_savepoints && rng.chance(7, 8) {
                    let live: Vec<String> = self.sp_stack.iter().map(|(n, _, _)| n.clone()).collect();
                    match rng.below(10) {
                        0..=3 => {
                            let n = if !self.dead_savepoints.is_empty() && rng.chance(1, 4) {
                                let i = rng.usize(self.dead_savepoints.len());
                                self.dead_savepoints.remove(i)
                            } else {
                                self.world.fresh_name("sp")
                            };
                            Op::new(Kind::Savepoint, format!("SAVEPOINT {}", n)).named(&n)
                        }
                        4..=7 if !live.is_empty() => {
                            let n = rng.pick(&live).clone();
                            Op::new(Kind::RollbackTo, format!("ROLLBACK TO SAVEPOINT {}", n)).named(&n)
                        }
                        8 if !live.is_empty() => {
                            let n = rng.pick(&live).clone();
                            Op::new(Kind::Release, format!("RELEASE SAVEPOINT {}", n)).named(&n)
                        }
                        _ if !self.dead_savepoints.is_empty() => {
                            // fault: a destroyed savepoint name
                            let n = rng.pick(&self.dead_savepoints).clone();
                            if rng.chance(1, 2) {
                                Op::new(Kind::RollbackTo, format!("ROLLBACK TO SAVEPOINT {}", n)).named(&n).fault("destroyed-savepoint")
                            } else {
                                Op::new(Kind::Release, format!("RELEASE SAVEPOINT {}", n)).named(&n).fault("destroyed-savepoint")
                            }
                        }
                        _ => {
                            let n = self.world.fresh_name("sp");
                            Op::new(Kind::Savepoint, format!("SAVEPOINT {}", n)).named(&n)
                        }
                    }
                } else if rng.chance(1, 6) {
                    // fault: a statement that tries to open a transaction inside the open one must be
                    // rejected and must not disturb what ROLLBACK / COMMIT will do
                    if rng.chance(2, 3) {
                        Op::new(Kind::Begin, "BEGIN".into()).fault("nested-begin")
                    } else {
                        let n = self.world.fresh_name("sch");
                        Op::new(Kind::Other, format!("CREATE SCHEMA {}", n)).fault("schema-in-tx")
                    }
                } else if rng.chance(1, 2) {
                    Op::new(Kind::Commit, "COMMIT".into())
                } else {
                    Op::new(Kind::Rollback, "ROLLBACK".into())
                }
            }
            6 => {
                if self.world.tables.len() > 1 && rng.chance(1, 2) {
                    Op::new(Kind::DropTable, format!("DROP TABLE {}", def.name)).table(&def.name)
                } else {
                    let name = self.world.fresh_name("t");
                    Op::create_table(gen_table(rng, &sw, &name))
                }
            }
            7 => Op::new(Kind::Analyze, format!("ANALYZE {}", def.name)).table(&def.name),
            8 => {
                // INSERT variants with their own code paths: ON DUPLICATE KEY UPDATE, REPLACE,
                // INSERT ... SELECT (bulk-transfer shape and general shape)
                let base_fault = if rng.chance(1, 2) { RowFault::DupKeyVsTable } else { RowFault::None };
                let base = gen_insert(rng, &sw, &self.sut, &def, Some(base_fault));
                match rng.below(4) {
                    0 => {
                        let mut ci = rng.usize(def.cols.len());
                        if sw.guard("c12_no_key_update_on_self_ref") {
                            // known finding C12-selfref-key-update reaches the same code through ON DUPLICATE KEY
                            // UPDATE: keep the referenced key of a self-referencing table out of its SET list too
                            let keycols: Vec<String> = def.fks.iter().filter(|f| f.parent == def.name).map(|f| f.parent_col.clone()).collect();
                            if keycols.contains(&def.cols[ci].name) {
                                ci = def.cols.iter().position(|c| !keycols.contains(&c.name)).unwrap_or(ci);
                                cx_veto = true;
                            }
                        }
                        let e = gen_set_expr(rng, &sw, &self.sut, &def, ci);
                        let mut base = base;
                        let stored = table_rows(&self.sut, &def.name).unwrap_or_default();
                        if def.uniques.len() >= 2 && !stored.is_empty() && rng.chance(1, 2) {
                            // a row that collides only on a later UNIQUE constraint and is NULL in the earlier
                            // ones (conflict detection must look at every constraint on its own)
                            let j = 1 + rng.usize(def.uniques.len() - 1);
                            let model = rng.pick(&stored).clone();
                            let mut row: Vec<Lit> = def.cols.iter().map(|c| gen_value(rng, &sw, c, true)).collect();
                            for &k in &def.pk {
                                if def.cols[k].ty == Ty::Int {
                                    row[k] = Lit::Int(rng.range(1000, 3000));
                                }
                            }
                            for u in &def.uniques[..j] {
                                for &k in u {
                                    if !def.cols[k].not_null && !def.pk.contains(&k) {
                                        row[k] = Lit::Null;
                                    }
                                }
                            }
                            for &k in &def.uniques[j] {
                                row[k] = match &model[k] {
                                    SqlValue::Integer(i) | SqlValue::Bigint(i) => Lit::Int(*i),
                                    SqlValue::Varchar(t) | SqlValue::Character(t) => Lit::Str(t.clone()),
                                    _ => Lit::Null,
                                };
                            }
                            base = Op::insert(&def.name, &[], vec![row]);
                        }
                        let mut op = Op::new(Kind::Other, format!("{} ON DUPLICATE KEY UPDATE {} = {}", base.sql, def.cols[ci].name, e)).table(&def.name);
                        op.fault = "on-duplicate-key-update".into();
                        op
                    }
                    1 => {
                        let mut op = Op::new(Kind::Other, base.sql.replacen("INSERT INTO", "REPLACE INTO", 1)).table(&def.name);
                        op.fault = "replace".into();
                        op
                    }
                    _ => {
                        // source table with the same column types
                        let srcs: Vec<&TableDef> = self.world.tables.values().filter(|t| t.name != def.name && t.cols.len() == def.cols.len() && t.cols.iter().zip(def.cols.iter()).all(|(a, b)| a.ty_class() == b.ty_class())).collect();
                        match srcs.first() {
                            Some(src) => {
                                let wh = if rng.chance(1, 2) { String::new() } else { format!(" WHERE {}", gen_pred(rng, &sw, &self.sut, src, o)) };
                                let mut op = Op::new(Kind::InsertSelect, format!("INSERT INTO {} SELECT * FROM {}{}", def.name, src.name, wh)).table(&def.name);
                                op.fault = "insert-select".into();
                                op
                            }
                            None => base,
                        }
                    }
                }
            }
            _ => {
                // ALTER TABLE ADD CONSTRAINT on existing data (may or may not hold)
                let mut d2 = def.clone();
                let ci = rng.usize(def.cols.len());
                let cname = self.world.fresh_name("k");
                let sql = if def.cols[ci].ty == Ty::Int && rng.chance(1, 2) {
                    let ch = Check::ColLit { col: ci, op: *rng.pick(&[Cmp::Ne, Cmp::Ge, Cmp::Le]), lit: rng.range(0, sw.domain - 1) };
                    let t = format!("ALTER TABLE {} ADD CONSTRAINT {} CHECK ({})", def.name, cname, def.check_sql(&ch));
                    d2.checks.push(ch);
                    t
                } else if def.pk.is_empty() && rng.chance(1, 3) {
                    d2.pk = vec![ci];
                    format!("ALTER TABLE {} ADD CONSTRAINT {} PRIMARY KEY ({})", def.name, cname, def.cols[ci].name)
                } else {
                    d2.uniques.push(vec![ci]);
                    format!("ALTER TABLE {} ADD CONSTRAINT {} UNIQUE ({})", def.name, cname, def.cols[ci].name)
                };
                let mut op = Op::new(Kind::Alter, sql).table(&def.name);
                op.def = Some(d2);
                op.fault = "alter-add-constraint".into();
                op
            }
        };
        if cx_veto {
            cx.rep.count("guard_veto.c12_no_key_update_on_self_ref");
        }
        Some(chosen)
    }

    fn step(&mut self, op: &Op, cx: &mut Ctx) -> Step {
        let want_c09 = cx.is("C09");
        let want_c11 = cx.is("C11");
        let is_dml = matches!(op.kind, Kind::Insert | Kind::Update | Kind::Delete | Kind::InsertSelect) || (op.kind == Kind::Other && op.table.is_some());

        // ---- pre-state observations
        let pre_snap = if want_c11 && is_dml { Some(snapshot(&self.sut, true)) } else { None };
        let table = op.table.clone().unwrap_or_default();
        let pre_rows = if (want_c09 || want_c11) && is_dml { table_rows(&self.sut, &table) } else { None };
        let want_c12 = cx.is("C12");
        let mut sel: Option<Out> = None;
        let mut img: Option<Out> = None;
        if (want_c09 || want_c12) && matches!(op.kind, Kind::Update | Kind::Delete) {
            let ncols = self.world.tables.get(&table).map(|d| d.cols.len()).unwrap_or(0);
            let mut list: Vec<String> = self.world.tables.get(&table).map(|d| d.cols.iter().map(|c| c.name.clone()).collect()).unwrap_or_default();
            if op.kind == Kind::Update {
                if let Some(def) = self.world.tables.get(&table) {
                    for c in &def.cols {
                        list.push(match op.sets.iter().find(|(n, _)| n.eq_ignore_ascii_case(&c.name)) {
                            Some((_, e)) => e.clone(),
                            None => c.name.clone(),
                        });
                    }
                }
            }
            if ncols > 0 {
                let q = match &op.pred {
                    Some(p) => format!("SELECT {} FROM {} WHERE {}", list.join(", "), table, p),
                    None => format!("SELECT {} FROM {}", list.join(", "), table),
                };
                match self.sut.query(&q) {
                    Out::Rows(rows) => {
                        sel = Some(Out::Rows(rows.iter().map(|r| r[..ncols.min(r.len())].to_vec()).collect()));
                        if op.kind == Kind::Update {
                            // new images as they will be stored: strings cut to the column width
                            let widths: Vec<Option<usize>> = self.world.tables.get(&table).map(|d| d.cols.iter().map(|c| if let Ty::Str(n) = c.ty { Some(n as usize) } else { None }).collect()).unwrap_or_default();
                            img = Some(Out::Rows(
                                rows.iter()
                                    .map(|r| {
                                        r[ncols.min(r.len())..]
                                            .iter()
                                            .enumerate()
                                            .map(|(i, v)| match (v, widths.get(i).copied().flatten()) {
                                                (SqlValue::Varchar(s), Some(w)) if s.chars().count() > w => SqlValue::Varchar(s.chars().take(w).collect()),
                                                _ => v.clone(),
                                            })
                                            .collect()
                                    })
                                    .collect(),
                            ));
                        }
                    }
                    other => sel = Some(other),
                }
            }
        }
        let pre_all: Option<crate::fkmodel::Tables> = if want_c12 {
            Some(self.world.tables.keys().filter_map(|n| table_rows(&self.sut, n).map(|r| (n.clone(), r))).collect())
        } else {
            None
        };
        let mut c13_pre = if cx.is("C13") && matches!(op.kind, Kind::Begin | Kind::Commit) { Some(snapshot(&self.sut, true)) } else if op.kind == Kind::Begin { Some(Snap::default()) } else { None };
        let c14_pre = if cx.is("C14") && op.kind == Kind::Release { Some(snapshot(&self.sut, false).tables) } else { None };
        let world_before = if op.kind == Kind::Begin { self.world.clone() } else { World::default() };

        // ---- execute
        if op.kind == Kind::Hostile && op.sql.starts_with("SELECT") {
            // read-only hostile statement: executed on a copy in a watchdog thread, so that a statement
            // that never returns is reported instead of stalling the batch (the thread is leaked)
            let db = self.sut.db.clone();
            let sql = op.sql.clone();
            let (tx, rx) = std::sync::mpsc::channel();
            let _ = std::thread::Builder::new().stack_size(64 << 20).spawn(move || {
                simcore::hashseed::set(0xC24); // fixed hash keys: the result must not depend on them
                let _ = tx.send(Sut::from_db(db).query(&sql));
            });
            let out = match rx.recv_timeout(std::time::Duration::from_secs(120)) {
                Ok(o) => o,
                Err(_) => {
                    cx.eval("c24.returns");
                    return cx.violation("c24.hang", format!("statement did not return within 120 s: {}", op.sql));
                }
            };
            cx.log.str(out.class());
            cx.eval("c24.returns");
            if let Out::Panic(p) = &out {
                return cx.violation("c24.panic", format!("statement panicked: {} :: {}", op.sql, p));
            }
            if let Some(k) = op.name.as_deref().and_then(|n| n.strip_prefix("exact_sum:")).and_then(|k| k.parse::<i64>().ok()) {
                // the harness adds the stored values itself (in 128 bits): the answer is that sum, or NULL / an
                // error when it does not fit into 64 bits - never a wrapped value
                if let (Some(rows), Out::Rows(res)) = (table_rows(&self.sut, "edge"), &out) {
                    let as_int = |v: &SqlValue| match v {
                        SqlValue::Integer(i) | SqlValue::Bigint(i) => Some(*i),
                        SqlValue::Smallint(i) => Some(*i as i64),
                        _ => None,
                    };
                    let pass: Vec<&Vec<SqlValue>> = rows.iter().filter(|r| r.len() == 2 && as_int(&r[1]).map_or(false, |g| g >= k)).collect();
                    let vals: Vec<i128> = pass.iter().filter_map(|r| as_int(&r[0])).map(|v| v as i128).collect();
                    let total: i128 = vals.iter().sum();
                    cx.eval("c24.exact_sum");
                    let got = res.first().map(|r| vnorm_row(r)).unwrap_or_default();
                    let want_count = format!("I{}", pass.len());
                    let ok = if res.len() != 1 || res[0].len() != 2 || vnorm(&res[0][1]) != want_count {
                        false
                    } else if vals.is_empty() {
                        res[0][0] == SqlValue::Null
                    } else if total >= i64::MIN as i128 && total <= i64::MAX as i128 {
                        // known finding C03-columnar-f64-sum: the fast path hands the (exactly computed) sum out
                        // as a Double; with its guard the correctly rounded value is accepted, nothing else
                        let rounded = self.sw.guard("c03_no_ints_beyond_2_53") && matches!(&res[0][0], SqlValue::Double(f) if *f == total as f64);
                        vnorm(&res[0][0]) == format!("I{}", total) || rounded
                    } else {
                        res[0][0] == SqlValue::Null
                    };
                    if ok && !vals.is_empty() {
                        cx.reach(if total >= i64::MIN as i128 && total <= i64::MAX as i128 { "edge_sum_fits" } else { "edge_sum_overflows" });
                    }
                    if !ok {
                        return cx.violation("c24.exact_sum", format!("{} returned [{}] over values {:?}: the exact sum is {} ({} rows pass the filter)", op.sql, got, vals, total, pass.len()));
                    }
                }
            }
            return Step::Continue;
        }
        let out = self.sut.exec(&op.sql);
        cx.log.str(out.class());
        cx.sig.str(out.class());
        if out.is_ok() && !matches!(op.kind, Kind::Probe | Kind::Analyze | Kind::Begin | Kind::Savepoint) {
            cx.state_changes += 1;
        }
        self.world.apply(op, &out);
        if let Some(rows) = table_rows(&self.sut, &table) {
            cx.log.u64(rows.len() as u64);
            for r in rows.iter().take(64) {
                cx.log.str(&crate::sut::canon_row(r));
            }
        }
        for n in self.sut.db.list_tables() {
            cx.log.str(&n); // HashMap iteration order of the table registry
        }

        // ---- C24: panics
        if let Out::Panic(p) = &out {
            if cx.is("C24") {
                cx.eval("c24.no_panic");
                return cx.violation("c24.panic", format!("statement panicked: {} :: {}", op.sql, p));
            }
            return Step::EndForeign("panic".into());
        }
        if cx.is("C24") {
            cx.eval("c24.no_panic");
        }

        // ---- C11
        if want_c11 && is_dml {
            if out.is_err() {
                let post = snapshot(&self.sut, true);
                cx.eval("c11.err_unchanged");
                if !op.fault.is_empty() {
                    cx.reach(&format!("fault_fired.{}", op.fault.split('@').next().unwrap_or("")));
                }
                let pre = pre_snap.as_ref().unwrap();
                if *pre != post {
                    return cx.violation("c11.err_unchanged", format!("{} failed with {} but changed the database: {}", op.sql, out.brief(), pre.diff(&post)));
                }
            } else if op.kind == Kind::Insert {
                if let (Some(pre), Some(post), Some(def)) = (&pre_rows, table_rows(&self.sut, &table), self.world.tables.get(&table)) {
                    if let Some(exp) = expected_insert_rows(def, op) {
                        cx.eval("c11.ok_all_rows");
                        let want = bag_plus(&vbag(pre), &exp);
                        let got = vbag(&post);
                        if want != got {
                            return cx.violation("c11.ok_all_rows", format!("{} succeeded but the table does not hold old rows + all given rows: expected {:?} got {:?}", op.sql, want, got));
                        }
                    }
                }
            }
        }

        // ---- C09
        if want_c09 && out.is_ok() {
            match op.kind {
                Kind::Delete => {
                    if let (Some(Out::Rows(s)), Some(pre), Some(post), Out::Count(n)) = (&sel, &pre_rows, table_rows(&self.sut, &table), &out) {
                        cx.eval("c09.delete");
                        if bag_minus(&vbag(pre), &vbag(s)).is_none() {
                            return Step::EndForeign("select_returned_rows_not_in_table".into());
                        }
                        if *n != s.len() {
                            return cx.violation("c09.delete_count", format!("{} reported {} rows, SELECT with the same predicate returns {}", op.sql, n, s.len()));
                        }
                        match bag_minus(&vbag(pre), &vbag(s)) {
                            Some(want) => {
                                let got = vbag(&post);
                                if want != got {
                                    return cx.violation("c09.delete_rows", format!("{}: remaining rows {:?}, expected pre-state minus selected rows {:?}", op.sql, got, want));
                                }
                            }
                            None => return Step::EndForeign("select_returned_rows_not_in_table".into()),
                        }
                    }
                }
                Kind::Update => {
                    if let (Some(Out::Rows(s)), Some(Out::Rows(im)), Some(pre), Some(post), Out::Count(n)) = (&sel, &img, &pre_rows, table_rows(&self.sut, &table), &out) {
                        cx.eval("c09.update");
                        if bag_minus(&vbag(pre), &vbag(s)).is_none() {
                            return Step::EndForeign("select_returned_rows_not_in_table".into());
                        }
                        if *n != s.len() {
                            return cx.violation("c09.update_count", format!("{} reported {} rows, SELECT with the same predicate returns {}", op.sql, n, s.len()));
                        }
                        match bag_minus(&vbag(pre), &vbag(s)) {
                            Some(rest) => {
                                let want = bag_plus(&rest, &vbag(im));
                                let got = vbag(&post);
                                if want != got {
                                    return cx.violation("c09.update_rows", format!("{}: table holds {:?}, expected untouched rows + new images {:?}", op.sql, got, want));
                                }
                            }
                            None => return Step::EndForeign("select_returned_rows_not_in_table".into()),
                        }
                    }
                }
                Kind::Insert => {
                    if let (Some(pre), Some(post), Some(def)) = (&pre_rows, table_rows(&self.sut, &table), self.world.tables.get(&table)) {
                        if let Some(exp) = expected_insert_rows(def, op) {
                            cx.eval("c09.insert");
                            let want = bag_plus(&vbag(pre), &exp);
                            let got = vbag(&post);
                            if want != got {
                                return cx.violation("c09.insert_rows", format!("{}: table holds {:?}, expected {:?}", op.sql, got, want));
                            }
                        }
                    }
                }
                _ => {}
            }
        }

        // ---- transaction bookkeeping + C13 / C14
        match op.kind {
            Kind::Begin if out.is_ok() => {
                self.begin_snap = c13_pre.take();
                self.begin_world = Some(Box::new(world_before.clone()));
                self.sp_stack.clear();
                self.dead_savepoints.clear();
            }
            Kind::Rollback if out.is_ok() => {
                if let Some(w) = self.begin_world.take() {
                    let next = self.world.next_name;
                    self.world = *w;
                    self.world.next_name = next;
                    self.world.in_tx = false;
                    self.world.savepoints.clear();
                }
                self.sp_stack.clear();
                if cx.is("C13") {
                    if let Some(b) = self.begin_snap.take() {
                        let post = snapshot(&self.sut, true);
                        cx.eval("c13.rollback_restores");
                        cx.reach("rollback_checked");
                        if b != post {
                            return cx.violation("c13.rollback_restores", format!("state after ROLLBACK differs from state before BEGIN: {}", b.diff(&post)));
                        }
                    }
                }
            }
            Kind::Commit if out.is_ok() => {
                self.begin_world = None;
                self.begin_snap = None;
                self.sp_stack.clear();
                if cx.is("C13") {
                    if let Some(pre) = c13_pre.take() {
                        let post = snapshot(&self.sut, true);
                        cx.eval("c13.commit_keeps");
                        if pre != post {
                            return cx.violation("c13.commit_keeps", format!("state after COMMIT differs from state after the last statement: {}", pre.diff(&post)));
                        }
                    }
                }
            }
            Kind::Savepoint if out.is_ok() => {
                let n = op.name.clone().unwrap_or_default();
                self.sp_stack.push((n, snapshot(&self.sut, false).tables, false));
            }
            Kind::RollbackTo | Kind::Release => {
                let n = op.name.clone().unwrap_or_default();
                let pos = self.sp_stack.iter().rposition(|(x, _, _)| *x == n);
                if cx.is("C14") {
                    match (pos, out.is_ok()) {
                        (None, true) => {
                            cx.eval("c14.destroyed_savepoint");
                            return cx.violation("c14.destroyed_savepoint", format!("{} succeeded although that savepoint was never created or has been destroyed", op.sql));
                        }
                        (Some(p), false) if self.sp_stack[p].2 => {
                            // established after a savepoint that was since RELEASEd: the statement does
                            // not say whether it survives, so either answer is accepted
                            self.sp_stack.remove(p);
                        }
                        (Some(_), false) => {
                            cx.eval("c14.savepoint_alive");
                            return cx.violation("c14.savepoint_alive", format!("{} failed ({}) although the savepoint is alive", op.sql, out.brief()));
                        }
                        (None, false) => {
                            cx.eval("c14.destroyed_savepoint");
                            cx.reach("destroyed_savepoint_rejected");
                        }
                        _ => {}
                    }
                }
                let pos = self.sp_stack.iter().rposition(|(x, _, _)| *x == n);
                if let (Some(p), true) = (pos, out.is_ok()) {
                    let now = snapshot(&self.sut, false).tables;
                    if op.kind == Kind::RollbackTo {
                        for (d, _, maybe) in self.sp_stack.drain(p + 1..) {
                            if !maybe {
                                self.dead_savepoints.push(d);
                            }
                        }
                        if cx.is("C14") {
                            cx.eval("c14.rollback_to");
                            cx.reach("rollback_to_checked");
                            let want = &self.sp_stack[p].1;
                            if *want != now {
                                let a = Snap { tables: want.clone(), ..Default::default() };
                                let b = Snap { tables: now, ..Default::default() };
                                return cx.violation("c14.rollback_to", format!("after {} the tables differ from their contents at the savepoint: {}", op.sql, a.diff(&b)));
                            }
                        }
                    } else {
                        // RELEASE destroys the named savepoint; whether later ones survive is not stated
                        let (d, _, _) = self.sp_stack.remove(p);
                        self.dead_savepoints.push(d);
                        for e in self.sp_stack.iter_mut().skip(p) {
                            e.2 = true;
                        }
                        if cx.is("C14") {
                            if let Some(pre) = &c14_pre {
                                cx.eval("c14.release_no_change");
                                if *pre != now {
                                    let a = Snap { tables: pre.clone(), ..Default::default() };
                                    let b = Snap { tables: now, ..Default::default() };
                                    return cx.violation("c14.release_no_change", format!("{} changed data: {}", op.sql, a.diff(&b)));
                                }
                            }
                        }
                    }
                }
            }
            _ => {}
        }

        // ---- C12
        if want_c12 {
            use crate::fkmodel::{self, Verdict};
            let post_all: fkmodel::Tables = self.world.tables.keys().filter_map(|n| table_rows(&self.sut, n).map(|r| (n.clone(), r))).collect();
            cx.eval("c12.no_orphan");
            if let Some(o) = fkmodel::orphan(&self.world.tables, &post_all) {
                return cx.violation("c12.no_orphan", format!("after {} ({}): orphan child row: {}", op.sql, out.brief(), o));
            }
            if let (Some(pre), Some(Out::Rows(olds))) = (&pre_all, &sel) {
                // attribution: if the statement did not even act on the rows its own predicate selects
                // (C09's business), the FK model has nothing to say about this step
                let self_ref = self.world.tables.get(&table).map(|d| d.fks.iter().any(|f| f.parent == table)).unwrap_or(false);
                if out.is_ok() && !self_ref && matches!(op.kind, Kind::Delete | Kind::Update) {
                    if let (Some(p), Some(q)) = (pre.get(&table), post_all.get(&table)) {
                        let rest = bag_minus(&vbag(p), &vbag(olds));
                        let want = match (&rest, op.kind == Kind::Update, &img) {
                            (Some(r), true, Some(Out::Rows(im))) => Some(bag_plus(r, &vbag(im))),
                            (Some(r), false, _) => Some(r.clone()),
                            _ => None,
                        };
                        if want.as_ref() != Some(&vbag(q)) {
                            return Step::EndForeign("c09_target_rows".into());
                        }
                    }
                }
                let verdict = match op.kind {
                    Kind::Delete => Some(fkmodel::delete(&self.world.tables, pre, &table, olds)),
                    Kind::Update => match &img {
                        Some(Out::Rows(news)) if news.len() == olds.len() => {
                            let pairs: Vec<_> = olds.iter().cloned().zip(news.iter().cloned()).collect();
                            {
                                let assigned: Vec<usize> = self.world.tables.get(&table).map(|d| op.sets.iter().filter_map(|(c, _)| d.col_index(c)).collect()).unwrap_or_default();
                                Some(fkmodel::update(&self.world.tables, pre, &table, &pairs, &assigned))
                            }
                        }
                        _ => None,
                    },
                    _ => None,
                };
                match verdict {
                    Some(Verdict::Post(want)) if out.is_ok() => {
                        cx.eval("c12.action_effect");
                        let (w, g) = (fkmodel::bags(&want), fkmodel::bags(&post_all));
                        if w != g {
                            let which = w.iter().find(|(k, v)| g.get(*k) != Some(*v)).map(|(k, _)| k.clone()).unwrap_or_default();
                            return cx.violation("c12.action_effect", format!("after {}: table {} holds {:?}, the declared ON DELETE/UPDATE actions give {:?}", op.sql, which, g.get(&which), w.get(&which)));
                        }
                        if want.iter().any(|(k, v)| k != &table && pre.get(k).map(|p| crate::scen_hist::vbag(p)) != Some(crate::scen_hist::vbag(v))) {
                            cx.reach("referential_action_changed_child");
                        }
                    }
                    Some(Verdict::MustReject(why)) => {
                        cx.eval("c12.must_reject");
                        if out.is_ok() {
                            return cx.violation("c12.must_reject", format!("{} was accepted although {}", op.sql, why));
                        }
                        cx.reach("orphaning_statement_rejected");
                    }
                    Some(Verdict::Unknown(w)) => cx.rep.count(&format!("c12.unmodelled.{}", w)),
                    _ => {}
                }
            }
        }

        // ---- C10
        if cx.is("C10") {
            if let Some((oracle, detail)) = self.check_constraints(cx) {
                return cx.violation(&oracle, format!("after {} ({}): {}", op.sql, out.brief(), detail));
            }
        }

        // ---- C15
        if cx.is("C15") {
            if let Some((oracle, detail)) = self.check_index_mirror(cx) {
                return cx.violation(&oracle, format!("after {} ({}): {}", op.sql, out.brief(), detail));
            }
        }
        Step::Continue
    }
}

/// Rows an accepted INSERT must have added (value-normalised), or None when the literals are not
/// plain values of the column's own type (then coercion is not the harness's to predict).
pub fn expected_insert_rows(def: &TableDef, op: &Op) -> Option<Vec<String>> {
    let mut out = Vec::new();
    let colmap: Vec<usize> = if op.cols.is_empty() {
        (0..def.cols.len()).collect()
    } else {
        let mut m = Vec::new();
        for c in &op.cols {
            m.push(def.col_index(c)?);
        }
        m
    };
    for r in &op.rows {
        if r.len() != colmap.len() {
            return None;
        }
        let mut full: Vec<String> = vec!["N".into(); def.cols.len()];
        for (i, l) in r.iter().enumerate() {
            let ci = colmap[i];
            match (l, &def.cols[ci].ty) {
                (Lit::Null, _) | (Lit::Int(_), Ty::Int) => {}
                (Lit::Str(s), Ty::Str(n)) if s.chars().count() <= *n as usize => {}
                _ => return None,
            }
            full[ci] = lit_norm(l)?;
        }
        out.push(full.join("|"));
    }
    Some(out)
}
