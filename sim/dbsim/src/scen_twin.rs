//! Twin scenario: the same history applied to 2-3 `Database` instances that differ in exactly one
//! respect X; after every step the base tables and a batch of generated probes must agree.
//!
//! * C02  X = user-defined indexes exist / do not exist
//! * C18  X = the instance went through save -> drop everything -> load (binary / compressed / JSON)
//! * C19  X = ... through save_sql_dump -> load_sql_dump (tables, columns and rows only)

use crate::driver::{Ctx, Scenario, Step};
use crate::gen::*;
use crate::ops::*;
use crate::probe::{self, ProbeOpts};
use crate::snapshot::*;
use crate::sut::{bag, seq, Out, Sut};
use crate::world::World;
use simcore::Rng;
use vibesql_storage::Database;

#[derive(Clone, Copy, PartialEq, Eq, Debug)]
pub enum Mode {
    Indexes,
    Restart,
    Dump,
    /// C16: in-memory indexes / spilled by memory budget / disk-backed at creation (simulated disk)
    Backend,
}

pub struct Twin {
    pub mode: Mode,
    pub suts: Vec<Sut>,
    pub world: World,
    pub sw: Swarm,
    setup: Vec<Op>,
    pending_probes: Vec<Op>,
    since_restart: usize,
    dir: std::path::PathBuf,
    files: u64,
    disks: Vec<crate::simdisk::SimDisk>,
}

impl Drop for Twin {
    fn drop(&mut self) {
        let _ = std::fs::remove_dir_all(&self.dir);
    }
}

fn run_dir() -> std::path::PathBuf {
    let base = std::env::var("VERIF_TMP").unwrap_or_else(|_| format!("/dev/shm/vsim.{}", std::process::id()));
    let t = std::thread::current();
    let name = t.name().unwrap_or("run").to_string();
    std::path::PathBuf::from(base).join(name)
}

impl Twin {
    fn probe_opts(&self) -> ProbeOpts {
        let mut o = ProbeOpts::default();
        o.pred.mixed_numeric = !self.sw.guard("no_mixed_numeric_literals");
        o
    }

    /// Compare base tables (schema + row multiset, bit-exact values) of every twin with twin 0.
    fn compare_tables(&self, cx: &mut Ctx, what: &str) -> Option<String> {
        let a = snapshot(&self.suts[0], false);
        for (i, s) in self.suts.iter().enumerate().skip(1) {
            let b = snapshot(s, false);
            cx.eval(what);
            if matches!(self.mode, Mode::Indexes | Mode::Backend) {
                if a.tables != b.tables {
                    let (x, y) = (Snap { tables: a.tables.clone(), ..Default::default() }, Snap { tables: b.tables.clone(), ..Default::default() });
                    return Some(format!("twin 0 vs twin {}: {}", i, x.diff(&y)));
                }
            } else if self.mode == Mode::Dump {
                // the dump promises tables, columns and rows
                let strip = |s: &Snap| -> Snap {
                    let mut t = s.tables.clone();
                    for v in t.values_mut() {
                        for c in v.cols.iter_mut() {
                            c.2 = false; // nullability is not promised by C19
                        }
                    }
                    Snap { tables: t, ..Default::default() }
                };
                let (x, y) = (strip(&a), strip(&b));
                if x != y {
                    return Some(format!("reference vs reloaded: {}", x.diff(&y)));
                }
            } else {
                let (x, y) = (Snap { tables: a.tables.clone(), indexes: a.indexes.clone(), ..Default::default() }, Snap { tables: b.tables.clone(), indexes: b.indexes.clone(), ..Default::default() });
                if x != y {
                    return Some(format!("reference vs reloaded: {}", x.diff(&y)));
                }
            }
        }
        None
    }

    fn restart(&mut self, fmt: RestartFmt, cx: &mut Ctx) -> Result<(), String> {
        let _ = std::fs::create_dir_all(&self.dir);
        self.files += 1;
        let ext = match fmt {
            RestartFmt::Binary => "vbsql",
            RestartFmt::Compressed => "vbsqlz",
            RestartFmt::Json => "json",
            RestartFmt::SqlDump => "sql",
        };
        let path = self.dir.join(format!("img{}.{}", self.files, ext));
        let victim = self.suts.len() - 1;
        let db = &self.suts[victim].db;
        let saved = simcore::runner::catch(|| match fmt {
            RestartFmt::Binary => db.save_binary(&path).map_err(|e| e.to_string()),
            RestartFmt::Compressed => db.save_compressed(&path).map_err(|e| e.to_string()),
            RestartFmt::Json => db.save_json(&path).map_err(|e| e.to_string()),
            RestartFmt::SqlDump => db.save_sql_dump(&path).map_err(|e| e.to_string()),
        });
        match saved {
            Ok(Ok(())) => {}
            Ok(Err(e)) => return Err(format!("save failed: {}", e)),
            Err(p) => return Err(format!("save panicked: {}", p)),
        }
        cx.fault(&format!("restart.{:?}", fmt));
        // only the durable image survives
        let loaded = simcore::runner::catch(|| match fmt {
            RestartFmt::Binary => Database::load_binary(&path).map_err(|e| e.to_string()),
            RestartFmt::Compressed => Database::load_compressed(&path).map_err(|e| e.to_string()),
            RestartFmt::Json => Database::load_json(&path).map_err(|e| e.to_string()),
            RestartFmt::SqlDump => vibesql_executor::load_sql_dump(&path).map_err(|e| e.to_string()),
        });
        let _ = std::fs::remove_file(&path);
        match loaded {
            Ok(Ok(db)) => {
                self.suts[victim] = Sut::from_db(db);
                Ok(())
            }
            Ok(Err(e)) => Err(format!("load failed: {}", e)),
            Err(p) => Err(format!("load panicked: {}", p)),
        }
    }
}

impl Scenario for Twin {
    const NAME: &'static str = "twin";

    fn new(prop: &str, sw: &Swarm) -> Self {
        let mode = match prop {
            "C02" => Mode::Indexes,
            "C18" => Mode::Restart,
            "C19" => Mode::Dump,
            "C16" => Mode::Backend,
            other => panic!("twin scenario does not serve {}", other),
        };
        let mut disks = Vec::new();
        let suts = if mode == Mode::Backend {
            use vibesql_storage::database::{DatabaseConfig, SpillPolicy};
            // twin 1: tiny memory budget -> indexes spill to the simulated disk
            let budget = [1usize, 64, 600, 4096][(sw.domain % 4) as usize];
            let cfg = DatabaseConfig { memory_budget: budget, disk_budget: usize::MAX / 2, spill_policy: SpillPolicy::SpillToDisk, sql_mode: vibesql_types::SqlMode::default() };
            let d1 = crate::simdisk::SimDisk::new();
            let mut b = Database::with_config(cfg);
            b.verif_set_index_storage(d1.as_backend());
            // twin 2: disk-backed from CREATE INDEX on (guarded hook H2)
            let d2 = crate::simdisk::SimDisk::new();
            let mut c = Database::new();
            c.verif_set_index_storage(d2.as_backend());
            disks = vec![d1, d2];
            vec![Sut::new(), Sut::from_db(b), Sut::from_db(c)]
        } else {
            vec![Sut::new(), Sut::new()]
        };
        Twin {
            mode,
            suts,
            world: World::default(),
            sw: sw.clone(),
            setup: Vec::new(),
            pending_probes: Vec::new(),
            since_restart: 0,
            dir: run_dir(),
            files: 0,
            disks,
        }
    }

    fn next_op(&mut self, rng: &mut Rng, _cx: &mut Ctx) -> Option<Op> {
        if self.world.tables.is_empty() && self.setup.is_empty() && self.world.next_name == 0 {
            for i in 0..self.sw.n_tables {
                let d = gen_table(rng, &self.sw, &format!("t{}", i));
                self.setup.push(Op::create_table(d));
            }
            if matches!(self.mode, Mode::Restart | Mode::Dump) && self.sw.max_rows_stmt % 2 == 0 {
                // every persisted value type, with rows that SQL INSERT cannot produce (SMALLINT etc.)
                self.setup.push(Op::new(Kind::Other, crate::imagegen::TYPED_DDL.to_string()).table("ty"));
                self.setup.push(Op::new(Kind::Other, format!("<typed rows {}>", rng.next_u64())).table("ty"));
                if rng.chance(1, 2) {
                    let col = *rng.pick(&["i", "j", "h", "c", "e", "k", "b"]);
                    self.setup.push(Op::new(Kind::Other, format!("CREATE INDEX ixty ON ty ({})", col)).table("ty"));
                }
            }
            if self.mode == Mode::Restart && self.sw.max_rows_stmt == 3 && self.sw.domain % 8 == 0 {
                // large, highly compressible image (blank-padded CHAR columns, a few thousand similar rows):
                // more than a megabyte that the compressed format shrinks by far more than an order of magnitude
                self.setup.push(Op::new(Kind::Other, "CREATE TABLE tz (id INTEGER, p CHAR(200), q CHAR(120))".to_string()).table("tz"));
                self.setup.push(Op::new(Kind::Other, format!("<padded rows {}>", 5000 + rng.usize(3000))).table("tz"));
                self.setup.push(Op::new(Kind::Restart(RestartFmt::Compressed), String::new()));
                self.setup.push(Op::new(Kind::Restart(*rng.pick(&[RestartFmt::Binary, RestartFmt::Json, RestartFmt::Compressed])), String::new()));
            }
            if self.mode == Mode::Indexes && self.sw.max_rows_stmt == 5 {
                // prefix-collision flavour (one run in 6): a composite index whose string key part is a
                // prefix, rows whose strings agree on that prefix, equal leading values, no NULLs
                let def = TableDef {
                    name: "tp".into(),
                    cols: vec![
                        ColDef { name: "c0".into(), ty: Ty::Int, not_null: true },
                        ColDef { name: "c1".into(), ty: Ty::Str(8), not_null: true },
                        ColDef { name: "c2".into(), ty: Ty::Int, not_null: false },
                    ],
                    ..Default::default()
                };
                let pool = ["ab", "abd", "abc", "a", "abe", "b", "ba", "aba"];
                let n = 5 + rng.usize(8);
                let rows: Vec<Vec<Lit>> = (0..n).map(|_| vec![Lit::Int(rng.range(0, 2)), Lit::Str(rng.pick(&pool).to_string()), Lit::Int(rng.range(0, 5))]).collect();
                let p = Some(1 + rng.below(2) as u32);
                let cols = match rng.below(3) {
                    0 => vec![("c0".to_string(), None, false), ("c1".to_string(), p, false)],
                    1 => vec![("c1".to_string(), p, false), ("c0".to_string(), None, false)],
                    _ => vec![("c0".to_string(), None, true), ("c1".to_string(), p, true)],
                };
                self.setup.push(Op::create_table(def));
                self.setup.push(Op::insert("tp", &[], rows));
                self.setup.push(Op::create_index(IndexDef { name: "ixp".into(), table: "tp".into(), unique: false, cols }));
            }
            if self.mode == Mode::Indexes && self.sw.max_rows_stmt == 4 && self.sw.domain % 2 == 0 {
                // statistics flavour (one run in ~12): a table large enough for the cost-based index selection
                // (taken only for analysed tables) to prefer the index on the filtered column while another
                // index could deliver the ORDER BY (1200 rows, two rows per value of c1: the estimated selectivity must be
                // below about 0.25 % for that); c2 is unique, so ORDER BY c2 is a total order
                let def = TableDef {
                    name: "ts".into(),
                    cols: vec![
                        ColDef { name: "c0".into(), ty: Ty::Int, not_null: true },
                        ColDef { name: "c1".into(), ty: Ty::Int, not_null: false },
                        ColDef { name: "c2".into(), ty: Ty::Int, not_null: false },
                    ],
                    ..Default::default()
                };
                self.setup.push(Op::create_table(def));
                for chunk in 0..4i64 {
                    let rows: Vec<Vec<Lit>> = (chunk * 300..chunk * 300 + 300).map(|i| vec![Lit::Int(i), Lit::Int(i % 600), Lit::Int((i * 856) % 1201)]).collect();
                    self.setup.push(Op::insert("ts", &[], rows));
                }
                self.setup.push(Op::create_index(IndexDef { name: "ixs1".into(), table: "ts".into(), unique: false, cols: vec![("c1".to_string(), None, false)] }));
                self.setup.push(Op::create_index(IndexDef { name: "ixs2".into(), table: "ts".into(), unique: false, cols: vec![("c2".to_string(), None, rng.chance(1, 3))] }));
                self.setup.push(Op::new(Kind::Analyze, "ANALYZE ts".into()).table("ts"));
                for _ in 0..6 {
                    let k = rng.range(0, 600);
                    let q = match rng.below(4) {
                        0 => format!("SELECT c0, c1, c2 FROM ts WHERE c1 = {} ORDER BY c2", k),
                        1 => format!("SELECT c0, c2 FROM ts WHERE c1 = {} ORDER BY c2 DESC", k),
                        2 => format!("SELECT c2 FROM ts WHERE c1 BETWEEN {} AND {} ORDER BY c2", k, k + 1),
                        _ => format!("SELECT c0, c1 FROM ts WHERE c2 = {} ORDER BY c1, c0", (k * 856) % 1201),
                    };
                    let mut o = Op::new(Kind::Probe, q).fault("total");
                    o.name = Some("analysed_two_indexes".into());
                    self.setup.push(o);
                }
            }
            if self.mode == Mode::Backend && self.sw.big_rows > 0 {
                // deep-tree flavour: string keys give the disk-backed B+ tree its minimum degree, so a few
                // dozen distinct keys reach height 3 and single-row UPDATEs of the key exercise leaf
                // merges, borrows between inner nodes and root collapses
                self.setup.clear();
                let def = TableDef {
                    name: "t0".into(),
                    cols: vec![
                        ColDef { name: "c0".into(), ty: Ty::Int, not_null: true },
                        ColDef { name: "c1".into(), ty: Ty::Str(12), not_null: false },
                        ColDef { name: "c2".into(), ty: Ty::Int, not_null: false },
                    ],
                    pk: vec![0],
                    ..Default::default()
                };
                let ix = IndexDef { name: "ixd".into(), table: "t0".into(), unique: false, cols: vec![("c1".into(), None, false)] };
                // growth variant: short keys when the index is created (and spilled), much longer keys
                // afterwards, enough of them to fill leaves (page sizing must not depend on the strings
                // that happened to be stored at spill time)
                let grow = self.sw.big_rows >= 80 && rng.chance(1, 2);
                let index_first = !grow && rng.chance(1, 2);
                self.setup.push(Op::create_table(def.clone()));
                if index_first {
                    self.setup.push(Op::create_index(ix.clone()));
                }
                let n = self.sw.big_rows;
                let mut start = 0usize;
                while start < n {
                    let k = (n - start).min(1 + rng.usize(40));
                    let rows = (start..start + k)
                        .map(|i| {
                            let key = if rng.chance(1, 12) {
                                Lit::Null
                            } else if grow {
                                Lit::Str(format!("{}", (i * 7) % 60))
                            } else {
                                Lit::Str(format!("k{:03}", if rng.chance(1, 8) { rng.usize(n) } else { (i * 7) % n }))
                            };
                            vec![Lit::Int(i as i64), key, Lit::Int(rng.range(0, 5))]
                        })
                        .collect();
                    self.setup.push(Op::insert("t0", &[], rows));
                    start += k;
                }
                if !index_first {
                    self.setup.push(Op::create_index(ix));
                }
                if grow {
                    let mut id = n + 1000;
                    for _ in 0..18 {
                        let rows = (0..10)
                            .map(|_| {
                                id += 1;
                                vec![Lit::Int(id as i64), Lit::Str(format!("zlongkey-{:03}", id % 1000)), Lit::Int(rng.range(0, 5))]
                            })
                            .collect();
                        self.setup.push(Op::insert("t0", &[], rows));
                    }
                    self.setup.push(Op::new(Kind::Probe, "SELECT * FROM t0 WHERE c1 >= 'z' ORDER BY c1, c0, c2".into()).fault("total"));
                    self.setup.push(Op::new(Kind::Probe, "SELECT c0 FROM t0 WHERE c1 = 'zlongkey-100'".into()));
                }
            }
            self.setup.reverse();
            self.world.next_name = 1;
        }
        if let Some(op) = self.setup.pop() {
            return Some(op);
        }
        if let Some(p) = self.pending_probes.pop() {
            return Some(p);
        }
        let sw = self.sw.clone();
        let names = self.world.table_names();
        if names.is_empty() {
            return None;
        }
        if self.mode == Mode::Backend && sw.big_rows > 0 && names.iter().any(|n| n == "t0") && !rng.chance(1, 6) {
            let n = sw.big_rows as i64;
            let def = self.world.tables["t0"].clone();
            let key = |rng: &mut Rng| if rng.chance(1, 10) { "NULL".to_string() } else { format!("'k{:03}'", rng.range(0, n + 5)) };
            let op = match rng.below(10) {
                0..=5 => Op::update("t0", vec![("c1".into(), key(rng))], Some(format!("c0 = {}", rng.range(0, n)))),
                6 => Op::update("t0", vec![("c1".into(), key(rng))], Some(format!("c1 = {}", key(rng)))),
                7 => Op::insert("t0", &[], vec![vec![Lit::Int(rng.range(0, n + 40)), Lit::Raw(key(rng)), Lit::Int(rng.range(0, 5))]]),
                8 => Op::delete("t0", Some(format!("c0 = {}", rng.range(0, n)))),
                _ => Op::update("t0", vec![("c1".into(), key(rng))], Some(format!("c0 BETWEEN {} AND {}", rng.range(0, n), rng.range(0, n)))),
            };
            let k = rng.usize(3);
            let ixs: Vec<IndexDef> = self.world.indexes_of("t0").into_iter().cloned().collect();
            for _ in 0..k {
                let p = match ixs.first() {
                    Some(ix) => probe::index_biased(rng, &sw, &self.suts[0], &def, ix, self.probe_opts()),
                    None => probe::single_table(rng, &sw, &self.suts[0], &def, self.probe_opts()),
                };
                let mut o = Op::new(Kind::Probe, p.sql);
                o.fault = if p.total_order { "total".into() } else { String::new() };
                o.name = Some(p.shape.to_string());
                self.pending_probes.push(o);
            }
            return Some(op);
        }
        let def = self.world.tables[rng.pick(&names)].clone();
        let o = PredOpts { truthy: false, mixed_numeric: !sw.guard("no_mixed_numeric_literals"), allow_or_not: true };
        let restart_w = if matches!(self.mode, Mode::Indexes | Mode::Backend) { 0 } else if self.since_restart > 3 { 6 } else { 1 };
        let weights = [sw.w_insert, sw.w_update, sw.w_delete, sw.w_truncate, if sw.with_indexes { sw.w_index } else { 0 }, if sw.with_analyze { 1 } else { 0 }, restart_w];
        let op = match rng.weighted(&weights) {
            0 => gen_insert(rng, &sw, &self.suts[0], &def, None),
            1 => gen_update(rng, &sw, &self.suts[0], &def, o),
            2 => gen_delete(rng, &sw, &self.suts[0], &def, o),
            3 => Op::new(Kind::Truncate, format!("TRUNCATE TABLE {}", def.name)).table(&def.name),
            4 => {
                let existing = self.world.indexes_of(&def.name).len();
                if existing > 0 && rng.chance(1, 4) {
                    let n = self.world.indexes_of(&def.name)[rng.usize(existing)].name.clone();
                    Op::new(Kind::DropIndex, format!("DROP INDEX {}", n)).named(&n)
                } else {
                    let ix = gen_index(rng, &sw, &mut self.world, &def);
                    Op::create_index(ix)
                }
            }
            5 => Op::new(Kind::Analyze, format!("ANALYZE {}", def.name)).table(&def.name),
            _ => {
                let fmt = match self.mode {
                    Mode::Dump => RestartFmt::SqlDump,
                    _ => *rng.pick(&[RestartFmt::Binary, RestartFmt::Compressed, RestartFmt::Json]),
                };
                Op::new(Kind::Restart(fmt), String::new())
            }
        };
        // queue probes to run after this op
        let k = 2 + rng.usize(4);
        let probes = probe::batch(rng, &sw, &self.suts[0], &self.world, self.probe_opts(), k);
        for p in probes {
            let mut o = Op::new(Kind::Probe, p.sql);
            o.fault = if p.total_order { "total".into() } else { String::new() };
            o.name = Some(p.shape.to_string());
            self.pending_probes.push(o);
        }
        Some(op)
    }

    fn step(&mut self, op: &Op, cx: &mut Ctx) -> Step {
        let (oracle_state, oracle_probe, oracle_accept) = match self.mode {
            Mode::Backend => ("c16.state", "c16.probe", "c16.accept"),
            Mode::Indexes => ("c02.state", "c02.probe", "c02.accept"),
            Mode::Restart => ("c18.state", "c18.probe", "c18.accept"),
            Mode::Dump => ("c19.state", "c19.probe", "c19.accept"),
        };
        match &op.kind {
            Kind::Probe => {
                let outs: Vec<Out> = self.suts.iter().map(|s| s.query(&op.sql)).collect();
                cx.log.str(outs[0].class());
                if outs.iter().any(|o| o.is_panic()) {
                    return Step::EndForeign("panic".into());
                }
                let total = op.fault == "total";
                if let Out::Rows(r) = &outs[0] {
                    // result *sequence* goes into the event log: it depends on HashMap iteration order
                    // inside the engine, so the determinism selftest also covers the hash-seed seam
                    for row in r {
                        cx.log.str(&crate::sut::canon_row(row));
                    }
                }
                cx.eval(oracle_probe);
                if let Some(shape) = &op.name {
                    cx.rep.count(&format!("probe.{}", shape));
                }
                for (i, o) in outs.iter().enumerate().skip(1) {
                    match (&outs[0], o) {
                        (Out::Rows(a), Out::Rows(b)) => {
                            if !a.is_empty() {
                                cx.reach("probe_nonempty");
                            }
                            if self.mode == Mode::Dump {
                                continue; // C19 promises rows, not query plans
                            }
                            if bag(a) != bag(b) {
                                return cx.violation(oracle_probe, format!("{} : twin 0 returns {:?}, twin {} returns {:?}", op.sql, bag(a), i, bag(b)));
                            }
                            if total && seq(a) != seq(b) {
                                return cx.violation(&format!("{}_order", oracle_probe), format!("{} : order differs: twin 0 {:?}, twin {} {:?}", op.sql, seq(a), i, seq(b)));
                            }
                        }
                        (Out::Err(_), Out::Err(_)) => {
                            cx.reach("probe_both_error");
                        }
                        (x, y) => {
                            if self.mode == Mode::Dump {
                                continue;
                            }
                            return cx.violation(oracle_probe, format!("{} : twin 0 {} but twin {} {}", op.sql, x.brief(), i, y.brief()));
                        }
                    }
                }
                Step::Continue
            }
            Kind::Restart(fmt) => {
                if self.world.in_tx {
                    return Step::Continue;
                }
                self.since_restart = 0;
                match self.restart(*fmt, cx) {
                    Ok(()) => {
                        cx.state_changes += 1;
                        cx.reach("restart_done");
                        if let Some(d) = self.compare_tables(cx, oracle_state) {
                            return cx.violation(oracle_state, format!("after save/load ({:?}): {}", fmt, d));
                        }
                        Step::Continue
                    }
                    Err(e) => {
                        cx.eval(oracle_state);
                        cx.violation(&format!("{}_roundtrip_failed", oracle_state), format!("save/load ({:?}) of a valid database failed: {}", fmt, e))
                    }
                }
            }
            Kind::Other if op.sql.starts_with("<typed rows ") => {
                let seed: u64 = op.sql.trim_start_matches("<typed rows ").trim_end_matches('>').parse().unwrap_or(0);
                let rows = crate::imagegen::typed_rows(&mut Rng::fork(seed, 0x7E));
                for s in self.suts.iter_mut() {
                    for r in &rows {
                        let _ = s.db.insert_row("TY", vibesql_storage::Row::new(r.clone()));
                    }
                }
                cx.state_changes += 1;
                cx.reach("typed_rows");
                Step::Continue
            }
            Kind::Other if op.sql.starts_with("<padded rows ") => {
                let n: i64 = op.sql.trim_start_matches("<padded rows ").trim_end_matches('>').parse().unwrap_or(0);
                for s in self.suts.iter_mut() {
                    for i in 0..n {
                        let row = vec![vibesql_types::SqlValue::Integer(i), vibesql_types::SqlValue::Character(format!("{:<200}", format!("name {}", i % 7))), vibesql_types::SqlValue::Character(format!("{:<120}", "x"))];
                        let _ = s.db.insert_row("TZ", vibesql_storage::Row::new(row));
                    }
                }
                cx.state_changes += 1;
                cx.reach("padded_rows");
                Step::Continue
            }
            Kind::CreateIndex | Kind::DropIndex if self.mode == Mode::Indexes => {
                // only twin 0 gets user-defined indexes
                let out = self.suts[0].exec(&op.sql);
                cx.log.str(out.class());
                if out.is_panic() {
                    return Step::EndForeign("panic".into());
                }
                if out.is_ok() {
                    cx.state_changes += 1;
                }
                self.world.apply(op, &out);
                Step::Continue
            }
            _ => {
                self.since_restart += 1;
                let pre0 = table_snap(&self.suts[0], op.table.as_deref().unwrap_or(""));
                let out0 = self.suts[0].exec(&op.sql);
                cx.log.str(out0.class());
                cx.sig.str(out0.class());
                if out0.is_panic() {
                    return Step::EndForeign("panic".into());
                }
                if out0.is_err() {
                    // attribution: a failed statement that changed twin 0 is C11's business
                    if pre0 != table_snap(&self.suts[0], op.table.as_deref().unwrap_or("")) {
                        return Step::EndForeign("c11_partial_failure".into());
                    }
                    // Indexes: a UNIQUE index may legitimately reject what the index-free twin accepts.
                    // Restart/Dump: constraints are not among the things C18/C19 promise to survive.
                    // Keep the twins in the same state by not applying the statement to the others.
                    if self.mode != Mode::Backend {
                        return Step::Continue;
                    }
                }
                for i in 1..self.suts.len() {
                    let pre = table_snap(&self.suts[i], op.table.as_deref().unwrap_or(""));
                    if self.mode == Mode::Backend && i == 2 {
                        vibesql_types::verif::set_force_disk_backed(true);
                    }
                    let o = self.suts[i].exec(&op.sql);
                    vibesql_types::verif::set_force_disk_backed(false);
                    if self.mode == Mode::Backend && op.kind == Kind::CreateIndex && o.is_ok() {
                        if let Some(ix) = &op.idx {
                            match self.suts[i].db.get_index_data(&ix.name) {
                                Some(vibesql_storage::IndexData::DiskBacked { .. }) => cx.reach(&format!("twin{}_index_disk_backed", i)),
                                Some(_) => cx.reach(&format!("twin{}_index_in_memory", i)),
                                None => {}
                            }
                        }
                    }
                    if o.is_panic() {
                        return Step::EndForeign("panic".into());
                    }
                    if o.is_err() && pre != table_snap(&self.suts[i], op.table.as_deref().unwrap_or("")) {
                        return Step::EndForeign("c11_partial_failure".into());
                    }
                    cx.eval(oracle_accept);
                    if o.is_ok() != out0.is_ok() {
                        if !matches!(self.mode, Mode::Indexes | Mode::Backend) {
                            // the reloaded twin refuses what the reference accepts: not a promise of
                            // C18/C19 (e.g. a constraint restored more strictly); states would diverge
                            return Step::EndForeign("reloaded_twin_refused_statement".into());
                        }
                        return cx.violation(oracle_accept, format!("{} : twin 0 {} but twin {} {}", op.sql, out0.brief(), i, o.brief()));
                    }
                }
                if out0.is_ok() {
                    cx.state_changes += 1;
                }
                self.world.apply(op, &out0);
                if let Some(d) = self.compare_tables(cx, oracle_state) {
                    return cx.violation(oracle_state, format!("after {} ({}): {}", op.sql, out0.brief(), d));
                }
                Step::Continue
            }
        }
    }
}
