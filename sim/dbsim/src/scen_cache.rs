//! C25 — the query result cache never serves a stale or foreign result.
//!
//! The real cache components (QuerySignature::from_sql, QueryResultCache, extract_tables_from_select)
//! are driven with the protocol of the repository's sqllogictest adapter (the only caller in the tree,
//! a test-support file that cannot be linked): a SELECT is looked up by the signature of its text; a miss
//! executes it and stores the rows with the extracted table names; INSERT / UPDATE / DELETE / DROP TABLE
//! invalidate by the statement's target table. A seeded history interleaves writes with cached reads of
//! query texts that differ only in literal case, literal white space, identifier case and layout, and
//! that reach tables through joins, subqueries, derived tables, CTEs, set operations and a view. After
//! every cached read the answer is compared with direct execution on the current database.

use crate::driver::{Ctx, Scenario, Step};
use crate::gen::Swarm;
use crate::ops::*;
use crate::sut::{bag, Out, Sut};
use simcore::Rng;
use vibesql_executor::cache::{extract_tables_from_select, QueryResultCache, QuerySignature};
use vibesql_executor::schema::CombinedSchema;

pub struct Cache {
    sut: Sut,
    sw: Swarm,
    cache: QueryResultCache,
    started: bool,
    setup: Vec<Op>,
    next_key: i64,
    with_view: bool,
    /// query texts issued so far in this run (re-issued to produce cache hits)
    recent: Vec<String>,
}

const WORDS: [&str; 12] = ["a", "A", "ab", "AB", "a b", "a  b", "Ab", "", "a\\", "A\\", "a''b", "a\"b"];

fn gen_query(rng: &mut Rng, with_view: bool) -> String {
    let w = |rng: &mut Rng| format!("'{}'", rng.pick(&WORDS));
    let n = rng.range(0, 5);
    let base = match rng.below(if with_view { 22 } else { 20 }) {
        // several literals in one statement (what precedes a literal must not change how it is read)
        16 => format!("SELECT * FROM t0 WHERE s = {} OR s = {}", w(rng), w(rng)),
        17 => format!("SELECT k, {} FROM t0 WHERE s IN ({}, {})", w(rng), w(rng), w(rng)),
        18 => format!("SELECT COUNT(*) FROM t0 WHERE s <> {} AND s <> {}", w(rng), w(rng)),
        19 => format!("SELECT {} , k FROM t0 WHERE s = {}", w(rng), w(rng)),
        0 => format!("SELECT * FROM t0 WHERE s = {}", w(rng)),
        1 => format!("SELECT k FROM t0 WHERE s <> {}", w(rng)),
        2 => format!("SELECT k, {} FROM t0", w(rng)),
        3 => format!("SELECT COUNT(*) FROM t0 WHERE s = {}", w(rng)),
        4 => format!("SELECT * FROM t1 WHERE v = {}", n),
        5 => format!("SELECT * FROM t0, t1 WHERE t0.k = t1.k AND t0.s = {}", w(rng)),
        6 => format!("SELECT * FROM t0 WHERE k IN (SELECT k FROM t1 WHERE v >= {})", n),
        7 => format!("SELECT k, (SELECT COUNT(*) FROM t1) FROM t0 WHERE s = {}", w(rng)),
        8 => format!("SELECT * FROM t0 x WHERE EXISTS (SELECT 1 FROM t1 y WHERE y.k = x.k)"),
        9 => format!("SELECT * FROM (SELECT k, v FROM t1) d WHERE d.v >= {}", n),
        10 => format!("WITH c AS (SELECT k FROM t1 WHERE v >= {}) SELECT * FROM c", n),
        11 => "SELECT k FROM t0 UNION SELECT k FROM t1".to_string(),
        12 => format!("SELECT s, COUNT(*) FROM t0 GROUP BY s HAVING COUNT(*) >= (SELECT COUNT(*) FROM t1 WHERE v = {})", n),
        13 => format!("SELECT x.k FROM t0 x LEFT JOIN t1 y ON x.k = y.k WHERE x.s = {}", w(rng)),
        // a CTE that shadows the table it reads (filtering-CTE idiom)
        14 => format!("WITH t1 AS (SELECT k, v FROM t1 WHERE v >= {}) SELECT * FROM t1", n),
        15 => format!("WITH t0 AS (SELECT k FROM t0 WHERE s = {}) SELECT t0.k, t1.v FROM t0, t1 WHERE t0.k = t1.k", w(rng)),
        20 => format!("SELECT * FROM v0 WHERE s = {}", w(rng)),
        _ => "SELECT COUNT(*) FROM v0".to_string(),
    };
    // layout / identifier-case variants of the same query
    match rng.below(5) {
        0 => base.replace("SELECT", "select").replace("FROM", "from").replace("WHERE", "where"),
        1 => base.replace(" FROM ", "  FROM  "),
        2 => base.replace("t0", "T0").replace("t1", "T1"),
        3 => format!("  {} ", base),
        _ => base,
    }
}

/// `q` with one of its string literals replaced by a case / blank-run variant of it (or `q` itself when it
/// has no literal with a variant)
fn near_duplicate(rng: &mut Rng, q: &str) -> String {
    const VARIANTS: [(&str, &str); 10] = [("'a'", "'A'"), ("'A'", "'a'"), ("'ab'", "'AB'"), ("'AB'", "'Ab'"), ("'Ab'", "'ab'"), ("'a b'", "'a  b'"), ("'a  b'", "'a b'"), ("'a\\'", "'A\\'"), ("'A\\'", "'a\\'"), ("'a''b'", "'A''b'")];
    let mut places: Vec<(usize, usize)> = Vec::new();
    for (vi, (from, _)) in VARIANTS.iter().enumerate() {
        let mut start = 0;
        while let Some(p) = q[start..].find(from) {
            places.push((start + p, vi));
            start += p + 1;
        }
    }
    if places.is_empty() {
        return q.to_string();
    }
    let (at, vi) = *rng.pick(&places);
    let (from, to) = VARIANTS[vi];
    format!("{}{}{}", &q[..at], to, &q[at + from.len()..])
}

impl Cache {
    /// the adapter's SELECT path: lookup by text signature, else execute and store
    fn cached_select(&self, sql: &str) -> Out {
        let sig = QuerySignature::from_sql(sql);
        if let Some((rows, _)) = self.cache.get(&sig) {
            return Out::Rows(rows.into_iter().map(|r| r.values).collect());
        }
        let stmt = match vibesql_parser::Parser::parse_sql(sql) {
            Ok(vibesql_ast::Statement::Select(s)) => s,
            Ok(_) => return Out::Err("not a select".into()),
            Err(e) => return Out::Err(format!("parse: {}", e)),
        };
        let out = self.sut.query(sql);
        if let Out::Rows(rows) = &out {
            let tables = extract_tables_from_select(&stmt);
            let schema = CombinedSchema::from_table("result".to_string(), vibesql_catalog::TableSchema::new("result".to_string(), vec![]));
            let rows = rows.iter().map(|v| vibesql_storage::Row::new(v.clone())).collect();
            self.cache.insert(sig, rows, schema, tables);
        }
        out
    }
}

impl Scenario for Cache {
    const NAME: &'static str = "cache";

    fn new(_prop: &str, sw: &Swarm) -> Self {
        let size = *[2usize, 8, 1000].get((sw.domain % 3) as usize).unwrap_or(&1000);
        Cache { sut: Sut::new(), sw: sw.clone(), cache: QueryResultCache::new(size), started: false, setup: Vec::new(), next_key: 10, with_view: !sw.guard("c25_no_views"), recent: Vec::new() }
    }

    fn next_op(&mut self, rng: &mut Rng, _cx: &mut Ctx) -> Option<Op> {
        if !self.started {
            self.started = true;
            let mut v = vec![
                Op::new(Kind::Other, "CREATE TABLE t0 (k INTEGER, s VARCHAR(8))".into()),
                Op::new(Kind::Other, "CREATE TABLE t1 (k INTEGER, v INTEGER)".into()),
                Op::new(Kind::Insert, "INSERT INTO t0 VALUES (1, 'a'), (2, 'A'), (3, 'a b'), (4, 'a  b'), (5, 'ab')".into()).table("t0"),
                Op::new(Kind::Insert, "INSERT INTO t1 VALUES (1, 0), (2, 3), (6, 4)".into()).table("t1"),
            ];
            if self.with_view {
                v.push(Op::new(Kind::Other, "CREATE VIEW v0 AS SELECT k, s FROM t0".into()));
            }
            v.reverse();
            self.setup = v;
        }
        if let Some(op) = self.setup.pop() {
            return Some(op);
        }
        let t = *rng.pick(&["t0", "t1", "T0", "T1"]);
        let is0 = t.eq_ignore_ascii_case("t0");
        Some(match rng.below(10) {
            0 | 1 => {
                self.next_key += 1;
                let val = if is0 { format!("'{}'", rng.pick(&WORDS)) } else { rng.range(0, 5).to_string() };
                Op::new(Kind::Insert, format!("INSERT INTO {} VALUES ({}, {})", t, rng.range(0, self.next_key), val)).table(t)
            }
            2 => {
                let set = if is0 { format!("s = '{}'", rng.pick(&WORDS)) } else { format!("v = {}", rng.range(0, 5)) };
                Op::new(Kind::Update, format!("UPDATE {} SET {} WHERE k = {}", t, set, rng.range(0, 7))).table(t)
            }
            3 => Op::new(Kind::Delete, format!("DELETE FROM {} WHERE k = {}", t, rng.range(0, 7))).table(t),
            _ => {
                let q = if !self.recent.is_empty() && rng.chance(3, 5) {
                    let q = rng.pick(&self.recent).clone();
                    // half of the re-issued texts are near-duplicates: one literal replaced by a variant that
                    // differs only in letter case or in the length of a run of blanks
                    if rng.chance(1, 2) { near_duplicate(rng, &q) } else { q }
                } else {
                    gen_query(rng, self.with_view)
                };
                if !self.recent.contains(&q) {
                    self.recent.push(q.clone());
                }
                Op::new(Kind::Probe, q)
            }
        })
    }

    fn step(&mut self, op: &Op, cx: &mut Ctx) -> Step {
        match &op.kind {
            Kind::Probe => {
                let before = self.cache.stats();
                let cached = self.cached_select(&op.sql);
                let after = self.cache.stats();
                let hit = after.hits > before.hits;
                let direct = self.sut.query(&op.sql);
                cx.log.str(cached.class());
                cx.sig.str(if hit { "hit" } else { "miss" });
                cx.reach(if hit { "cache_hit" } else { "cache_miss" });
                if !hit {
                    return Step::Continue;
                }
                cx.eval("c25.hit_is_current");
                match (&cached, &direct) {
                    (Out::Rows(a), Out::Rows(b)) => {
                        if bag(a) != bag(b) {
                            return cx.violation("c25.hit_is_current", format!("cache hit for `{}` returns {:?}, executing it now returns {:?}", op.sql, bag(a), bag(b)));
                        }
                        Step::Continue
                    }
                    (Out::Rows(a), other) => cx.violation("c25.hit_is_current", format!("cache hit for `{}` returns {:?}, executing it now: {}", op.sql, bag(a), other.brief())),
                    _ => Step::Continue,
                }
            }
            _ => {
                // the adapter's write path: invalidate by target table, then execute
                if let Some(t) = &op.table {
                    self.cache.invalidate_table(t);
                }
                let out = self.sut.exec(&op.sql);
                cx.log.str(out.class());
                cx.sig.str(out.class());
                if out.is_panic() {
                    return Step::EndForeign("panic".into());
                }
                if out.is_ok() {
                    cx.state_changes += 1;
                }
                Step::Continue
            }
        }
    }
}
