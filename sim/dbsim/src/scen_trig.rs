//! C34 — row/statement triggers fire once per affected row with the right row images.
//!
//! Target table `t(id PK, v, w)`, audit table `a(trg, o_id, o_v, n_id, n_v)`. A seeded set of triggers
//! (BEFORE/AFTER x INSERT/UPDATE/UPDATE OF v/DELETE x ROW/STATEMENT, optional WHEN, a seeded subset with
//! a body that fails) writes OLD/NEW images into the audit table. The affected rows of every DML
//! statement are read with the SUT's own SELECT on the pre-state; the model derives the expected
//! firings; after the statement the audit table must have grown by exactly those rows, and a failing
//! trigger must leave target and audit tables unchanged.
//!
//! Triggers are created through `CreateTriggerStmt` values (the API the repository's own trigger tests
//! use): the SQL text form stores the body as debug-printed tokens and cannot be executed.

use crate::driver::{Ctx, Scenario, Step};
use crate::gen::Swarm;
use crate::ops::*;
use crate::scen_hist::{vbag, vnorm};
use crate::snapshot::table_rows;
use crate::sut::{Out, Sut};
use simcore::runner::catch;
use simcore::Rng;
use vibesql_ast::{BinaryOperator, CreateTriggerStmt, Expression, TriggerAction, TriggerEvent, TriggerGranularity, TriggerTiming};
use vibesql_types::SqlValue;

#[derive(Clone, Debug)]
struct Trig {
    id: i64,
    name: String,
    before: bool,
    /// 0 insert, 1 update, 2 update of v, 3 delete
    event: u8,
    row_level: bool,
    /// WHEN w <cmp> lit (column w is never assigned by the workload's UPDATEs, so OLD.w = NEW.w)
    when: Option<(Cmp, i64)>,
    fails: bool,
}

pub struct Trg {
    sut: Sut,
    sw: Swarm,
    trigs: Vec<Trig>,
    started: usize,
    next_id: i64,
    next_trig: i64,
    /// queued follow-up operations (refill of the INSERT ... SELECT source table)
    pending: Vec<Op>,
}

fn cmp_op(c: Cmp) -> BinaryOperator {
    match c {
        Cmp::Eq => BinaryOperator::Equal,
        Cmp::Ne => BinaryOperator::NotEqual,
        Cmp::Lt => BinaryOperator::LessThan,
        Cmp::Le => BinaryOperator::LessThanOrEqual,
        Cmp::Gt => BinaryOperator::GreaterThan,
        Cmp::Ge => BinaryOperator::GreaterThanOrEqual,
    }
}
fn parse_cmp(s: &str) -> Cmp {
    match s {
        "=" => Cmp::Eq,
        "<>" => Cmp::Ne,
        "<" => Cmp::Lt,
        "<=" => Cmp::Le,
        ">" => Cmp::Gt,
        _ => Cmp::Ge,
    }
}

impl Trg {
    fn trig_from_op(op: &Op) -> Option<Trig> {
        let get = |k: &str| op.sets.iter().find(|(a, _)| a == k).map(|(_, b)| b.clone());
        Some(Trig {
            id: get("id")?.parse().ok()?,
            name: op.name.clone()?,
            before: get("timing")? == "before",
            event: get("event")?.parse().ok()?,
            row_level: get("gran")? == "row",
            when: get("when").and_then(|w| {
                let p: Vec<&str> = w.split(' ').collect();
                if p.len() == 2 {
                    Some((parse_cmp(p[0]), p[1].parse().ok()?))
                } else {
                    None
                }
            }),
            fails: get("fails")? == "1",
        })
    }

    fn create(&mut self, t: &Trig) -> Out {
        let body = if t.fails {
            "INSERT INTO nosuchtable VALUES (1)".to_string()
        } else {
            let (o_id, o_v) = if t.row_level && t.event != 0 { ("OLD.id", "OLD.v") } else { ("NULL", "NULL") };
            let (n_id, n_v) = if t.row_level && t.event != 3 { ("NEW.id", "NEW.v") } else { ("NULL", "NULL") };
            format!("INSERT INTO a VALUES ({}, {}, {}, {}, {})", t.id, o_id, o_v, n_id, n_v)
        };
        let stmt = CreateTriggerStmt {
            trigger_name: t.name.to_uppercase(),
            timing: if t.before { TriggerTiming::Before } else { TriggerTiming::After },
            event: match t.event {
                0 => TriggerEvent::Insert,
                1 => TriggerEvent::Update(None),
                2 => TriggerEvent::Update(Some(vec!["V".to_string()])),
                _ => TriggerEvent::Delete,
            },
            table_name: "T".to_string(),
            granularity: if t.row_level { TriggerGranularity::Row } else { TriggerGranularity::Statement },
            when_condition: t.when.map(|(c, l)| {
                Box::new(Expression::BinaryOp { op: cmp_op(c), left: Box::new(Expression::ColumnRef { table: None, column: "W".to_string() }), right: Box::new(Expression::Literal(SqlValue::Integer(l))) })
            }),
            triggered_action: TriggerAction::RawSql(body),
        };
        let db = &mut self.sut.db;
        match catch(move || vibesql_executor::TriggerExecutor::create_trigger(db, &stmt)) {
            Ok(Ok(_)) => Out::Done,
            Ok(Err(e)) => Out::Err(e.to_string()),
            Err(p) => Out::Panic(p),
        }
    }

    fn when_holds(t: &Trig, w: &SqlValue) -> bool {
        match (t.when, w) {
            (None, _) => true,
            (Some(_), SqlValue::Null) => false,
            (Some((c, l)), SqlValue::Integer(x)) => c.eval(*x, l),
            _ => false,
        }
    }

    /// Expected audit rows (value-normalised) and whether a failing trigger fires.
    fn expect(&self, event: u8, assigns_v: bool, olds: &[Vec<SqlValue>], news: &[Vec<SqlValue>]) -> (Vec<String>, bool) {
        let mut rows = Vec::new();
        let mut fails = false;
        let n = olds.len().max(news.len());
        for t in &self.trigs {
            let matches = match (t.event, event) {
                (0, 0) | (1, 1) | (3, 3) => true,
                (2, 1) => assigns_v,
                _ => false,
            };
            if !matches {
                continue;
            }
            if !t.row_level {
                // statement-level: once per statement, no row images, WHEN not used by the workload
                if t.fails {
                    fails = true;
                } else {
                    rows.push(format!("I{}|N|N|N|N", t.id));
                }
                continue;
            }
            for i in 0..n {
                let old = olds.get(i);
                let new = news.get(i);
                let w = new.or(old).map(|r| r[2].clone()).unwrap_or(SqlValue::Null);
                if !Self::when_holds(t, &w) {
                    continue;
                }
                if t.fails {
                    fails = true;
                    continue;
                }
                let img = |r: Option<&Vec<SqlValue>>, use_it: bool| -> (String, String) {
                    match (r, use_it) {
                        (Some(r), true) => (vnorm(&r[0]), vnorm(&r[1])),
                        _ => ("N".into(), "N".into()),
                    }
                };
                let (oi, ov) = img(old, t.event != 0);
                let (ni, nv) = img(new, t.event != 3);
                rows.push(format!("I{}|{}|{}|{}|{}", t.id, oi, ov, ni, nv));
            }
        }
        rows.sort();
        (rows, fails)
    }
}

impl Scenario for Trg {
    const NAME: &'static str = "trig";

    fn new(_prop: &str, sw: &Swarm) -> Self {
        Trg { sut: Sut::new(), sw: sw.clone(), trigs: Vec::new(), started: 0, next_id: 0, next_trig: 0, pending: Vec::new() }
    }

    fn next_op(&mut self, rng: &mut Rng, _cx: &mut Ctx) -> Option<Op> {
        self.started += 1;
        match self.started {
            1 => return Some(Op::new(Kind::CreateTable, "CREATE TABLE t (id INTEGER PRIMARY KEY, v INTEGER, w INTEGER)".into()).table("t")),
            2 => return Some(Op::new(Kind::CreateTable, "CREATE TABLE a (trg INTEGER, o_id INTEGER, o_v INTEGER, n_id INTEGER, n_v INTEGER)".into()).table("a")),
            3 => return Some(Op::new(Kind::CreateTable, "CREATE TABLE s (id INTEGER PRIMARY KEY, v INTEGER, w INTEGER)".into()).table("s")),
            _ => {}
        }
        if let Some(op) = self.pending.pop() {
            return Some(op);
        }
        let want_trigger = self.trigs.len() < 2 || (self.trigs.len() < 5 && rng.chance(1, 8));
        if want_trigger {
            self.next_trig += 1;
            let event = rng.below(4) as u8;
            let row_level = rng.chance(3, 4);
            let fails = rng.chance(1, 6);
            let when = if row_level && (fails || rng.chance(1, 3)) { Some((*rng.pick(&[Cmp::Eq, Cmp::Ge, Cmp::Lt, Cmp::Ne]), rng.range(0, 3))) } else { None };
            let mut op = Op::new(Kind::CreateTrigger, String::new()).named(&format!("tr{}", self.next_trig)).table("t");
            op.sets = vec![
                ("id".into(), self.next_trig.to_string()),
                ("timing".into(), if rng.chance(1, 2) { "before".into() } else { "after".into() }),
                ("event".into(), event.to_string()),
                ("gran".into(), if row_level { "row".into() } else { "stmt".into() }),
                ("fails".into(), if fails { "1".into() } else { "0".into() }),
            ];
            if let Some((c, l)) = when {
                op.sets.push(("when".into(), format!("{} {}", c.sql(), l)));
            }
            op.sql = format!("<CreateTriggerStmt {:?}>", op.sets);
            return Some(op);
        }
        let dom = self.sw.domain.max(4);
        let existing: Vec<i64> = table_rows(&self.sut, "t").unwrap_or_default().iter().filter_map(|r| if let SqlValue::Integer(i) = r[0] { Some(i) } else { None }).collect();
        if rng.chance(1, 9) {
            // INSERT ... SELECT from a source table refilled with fresh keys: the bulk-transfer path
            // (SELECT * FROM s) or the general path (column list / WHERE)
            let n = 1 + rng.usize(3);
            let rows: Vec<String> = (0..n)
                .map(|_| {
                    self.next_id += 1;
                    let v = if rng.chance(self.sw.null_pct, 100) { "NULL".to_string() } else { rng.range(0, dom).to_string() };
                    format!("({}, {}, {})", self.next_id, v, rng.range(0, 3))
                })
                .collect();
            let (sel, q) = match rng.below(3) {
                0 => ("INSERT INTO t SELECT * FROM s".to_string(), "SELECT id, v, w FROM s".to_string()),
                1 => ("INSERT INTO t (id, v, w) SELECT id, v, w FROM s".to_string(), "SELECT id, v, w FROM s".to_string()),
                _ => ("INSERT INTO t SELECT * FROM s WHERE v IS NOT NULL".to_string(), "SELECT id, v, w FROM s WHERE v IS NOT NULL".to_string()),
            };
            let mut ins = Op::new(Kind::Insert, sel).table("t");
            ins.pred = Some(q);
            self.pending.push(ins);
            self.pending.push(Op::new(Kind::Other, format!("INSERT INTO s VALUES {}", rows.join(", "))));
            return Some(Op::new(Kind::Other, "DELETE FROM s".into()));
        }
        Some(match rng.below(10) {
            0..=4 => {
                let n = 1 + rng.usize(self.sw.max_rows_stmt.min(4));
                let mut rows = Vec::new();
                for _ in 0..n {
                    self.next_id += 1;
                    let id = if !existing.is_empty() && rng.chance(1, 10) { *rng.pick(&existing) } else { self.next_id };
                    // (with extreme_ints: values whose neighbours are not distinguishable as f64)
                    let big = if self.sw.extreme_ints && rng.chance(1, 2) { 1i64 << 60 } else { 0 };
                    let v = if rng.chance(self.sw.null_pct, 100) { Lit::Null } else { Lit::Int(big + rng.range(0, dom)) };
                    let w = if rng.chance(self.sw.null_pct, 100) { Lit::Null } else { Lit::Int(rng.range(0, 3)) };
                    rows.push(vec![Lit::Int(id), v, w]);
                }
                Op::insert("t", &[], rows)
            }
            5..=7 => {
                // UPDATE: either changes v (always to a different value) or the key; never w
                let pred = match rng.below(4) {
                    0 => None,
                    1 => Some(format!("id = {}", if existing.is_empty() { 1 } else { *rng.pick(&existing) })),
                    2 => Some(format!("v >= {}", rng.range(0, dom))),
                    _ => Some(format!("w = {} AND id > {}", rng.range(0, 3), rng.range(0, self.next_id.max(1)))),
                };
                if rng.chance(3, 4) {
                    Op::update("t", vec![("v".into(), "v + 1".into())], pred.map(|p| format!("({}) AND v IS NOT NULL", p)).or(Some("v IS NOT NULL".into())))
                } else {
                    Op::update("t", vec![("id".into(), "id + 1000".into())], pred)
                }
            }
            _ => {
                let pred = match rng.below(3) {
                    0 => Some(format!("id = {}", if existing.is_empty() { 1 } else { *rng.pick(&existing) })),
                    1 => Some(format!("v < {}", rng.range(0, dom))),
                    _ => Some(format!("w = {}", rng.range(0, 3))),
                };
                Op::delete("t", pred)
            }
        })
    }

    fn step(&mut self, op: &Op, cx: &mut Ctx) -> Step {
        match op.kind {
            Kind::CreateTable => {
                let out = self.sut.exec(&op.sql);
                if !out.is_ok() {
                    return Step::EndForeign("setup_failed".into());
                }
                Step::Continue
            }
            Kind::CreateTrigger => {
                let t = match Trg::trig_from_op(op) {
                    Some(t) => t,
                    None => return Step::Continue,
                };
                let out = self.create(&t);
                cx.log.str(out.class());
                if out.is_panic() {
                    return Step::EndForeign("panic".into());
                }
                if out.is_ok() {
                    cx.rep.count(&format!("trigger.{}.{}.{}{}{}", if t.before { "before" } else { "after" }, ["insert", "update", "update_of", "delete"][t.event as usize], if t.row_level { "row" } else { "stmt" }, if t.when.is_some() { ".when" } else { "" }, if t.fails { ".failing" } else { "" }));
                    self.trigs.push(t);
                }
                Step::Continue
            }
            Kind::Insert | Kind::Update | Kind::Delete => {
                let pre_t = table_rows(&self.sut, "t").unwrap_or_default();
                let pre_a = table_rows(&self.sut, "a").unwrap_or_default();
                // affected rows and their new images, read on the pre-state
                let (event, olds, news, assigns_v): (u8, Vec<Vec<SqlValue>>, Vec<Vec<SqlValue>>, bool) = match op.kind {
                    Kind::Insert if op.rows.is_empty() && op.pred.is_some() => {
                        // INSERT ... SELECT: the new rows are what the SELECT returns on the pre-state
                        match self.sut.query(op.pred.as_deref().unwrap_or("")) {
                            Out::Rows(r) => {
                                cx.reach("insert_select");
                                (0, vec![], r, false)
                            }
                            _ => return Step::EndForeign("select_failed".into()),
                        }
                    }
                    Kind::Insert => {
                        let news = op.rows.iter().map(|r| r.iter().map(|l| match l { Lit::Int(i) => SqlValue::Integer(*i), _ => SqlValue::Null }).collect()).collect();
                        (0, vec![], news, false)
                    }
                    Kind::Update => {
                        let list: Vec<String> = ["id", "v", "w"].iter().map(|c| op.sets.iter().find(|(n, _)| n == c).map(|(_, e)| e.clone()).unwrap_or_else(|| c.to_string())).collect();
                        let q = format!("SELECT id, v, w, {} FROM t{}", list.join(", "), op.pred.as_ref().map(|p| format!(" WHERE {}", p)).unwrap_or_default());
                        match self.sut.query(&q) {
                            Out::Rows(r) => (1, r.iter().map(|x| x[..3].to_vec()).collect(), r.iter().map(|x| x[3..].to_vec()).collect(), op.sets.iter().any(|(c, _)| c == "v")),
                            _ => return Step::EndForeign("select_failed".into()),
                        }
                    }
                    _ => {
                        let q = format!("SELECT id, v, w FROM t{}", op.pred.as_ref().map(|p| format!(" WHERE {}", p)).unwrap_or_default());
                        match self.sut.query(&q) {
                            Out::Rows(r) => (3, r, vec![], false),
                            _ => return Step::EndForeign("select_failed".into()),
                        }
                    }
                };
                let (want_audit, must_fail) = self.expect(event, assigns_v, &olds, &news);
                let out = self.sut.exec(&op.sql);
                cx.log.str(out.class());
                cx.sig.str(out.class());
                if out.is_panic() {
                    return Step::EndForeign("panic".into());
                }
                let post_t = table_rows(&self.sut, "t").unwrap_or_default();
                let post_a = table_rows(&self.sut, "a").unwrap_or_default();
                if out.is_ok() {
                    cx.state_changes += 1;
                }
                if must_fail {
                    cx.eval("c34.failing_trigger");
                    cx.reach("failing_trigger_fired");
                    if out.is_ok() {
                        return cx.violation("c34.failing_trigger_ignored", format!("{} succeeded although a trigger whose body fails fires for it", op.sql));
                    }
                    if vbag(&pre_t) != vbag(&post_t) || vbag(&pre_a) != vbag(&post_a) {
                        return cx.violation("c34.failing_trigger_changed_state", format!("{} failed ({}) because of a failing trigger but changed the tables: t {:?} -> {:?}; audit {:?} -> {:?}", op.sql, out.brief(), vbag(&pre_t), vbag(&post_t), vbag(&pre_a), vbag(&post_a)));
                    }
                    return Step::Continue;
                }
                if out.is_err() {
                    // e.g. duplicate key: C11's business; the audit table must still be unchanged
                    cx.eval("c34.err_no_audit");
                    if vbag(&pre_a) != vbag(&post_a) {
                        return cx.violation("c34.audit_after_failed_statement", format!("{} failed ({}) but trigger side effects remain in the audit table: {:?} -> {:?}", op.sql, out.brief(), vbag(&pre_a), vbag(&post_a)));
                    }
                    return Step::Continue;
                }
                cx.eval("c34.firings");
                if !want_audit.is_empty() {
                    cx.reach("trigger_fired");
                }
                let mut want_all = vbag(&pre_a);
                want_all.extend(want_audit.iter().cloned());
                want_all.sort();
                let got = vbag(&post_a);
                if got != want_all {
                    // first differing entry, for the report
                    let extra: Vec<&String> = got.iter().filter(|g| !want_all.contains(g)).collect();
                    let missing: Vec<&String> = want_all.iter().filter(|w| !got.contains(w)).collect();
                    return cx.violation(
                        "c34.firings",
                        format!("{} ({} affected rows): audit table has {} rows, expected {}; unexpected {:?}; missing {:?}; triggers {:?}", op.sql, olds.len().max(news.len()), got.len(), want_all.len(), extra.iter().take(4).collect::<Vec<_>>(), missing.iter().take(4).collect::<Vec<_>>(), self.trigs),
                    );
                }
                Step::Continue
            }
            Kind::Other => {
                let out = self.sut.exec(&op.sql);
                cx.log.str(out.class());
                Step::Continue
            }
            _ => Step::Continue,
        }
    }
}
