//! C26 — access control is complete and follows the GRANT/REVOKE history.
//!
//! One database with security enabled; an ADMIN session creates two tables (with an index each), a view
//! and two roles, then a seeded history interleaves GRANT / REVOKE (executed as ADMIN), SET ROLE, and
//! statements executed under the current non-admin role in every shape that touches a table: scans,
//! index scans, aggregates, joins, IN / EXISTS / scalar subqueries, derived tables, CTEs, set operations,
//! a view, INSERT ... VALUES, INSERT ... SELECT (bulk-transfer and general path), UPDATE and DELETE with
//! subqueries. The model is the set of (role, table, privilege) implied by the accepted GRANT / REVOKE
//! statements. One-sided oracle, as the property is stated: a statement whose role lacks a privilege it
//! needs must fail and change nothing; a statement the engine refuses is never second-guessed.

use crate::driver::{Ctx, Scenario, Step};
use crate::gen::Swarm;
use crate::ops::*;
use crate::snapshot::table_rows;
use crate::sut::{bag, Out, Sut};
use simcore::Rng;
use std::collections::BTreeSet;

const TABLES: [&str; 2] = ["TA", "TB"];
/// all tables whose contents are watched (TC is the foreign-key child of TA)
const WATCHED: [&str; 3] = ["TA", "TB", "TC"];
const ROLES: [&str; 2] = ["R1", "R2"];
const PRIVS: [&str; 4] = ["SELECT", "INSERT", "UPDATE", "DELETE"];

pub struct Sec {
    sut: Sut,
    sw: Swarm,
    setup: Vec<Op>,
    started: bool,
    /// (role, table, privilege)
    grants: BTreeSet<(String, String, String)>,
    role: String,
    next_key: i64,
}

/// One statement under test with the privileges it needs: (table, privilege)
fn gen_statement(rng: &mut Rng, next_key: &mut i64) -> (String, Vec<(String, String)>) {
    let a = *rng.pick(&TABLES);
    let b = if a == "TA" { "TB" } else { "TA" };
    let s = |t: &str| (t.to_string(), "SELECT".to_string());
    let lit = rng.range(0, 6);
    *next_key += 1;
    let k = 100 + *next_key;
    let d = |t: &str| (t.to_string(), "DELETE".to_string());
    match rng.below(33) {
        26 => (format!("SELECT COUNT(*) FROM {} LIMIT 1", a), vec![s(a)]),
        27 => (format!("SELECT COUNT(*) FROM {} ORDER BY 1", a), vec![s(a)]),
        28 => (format!("SELECT COUNT(*) FROM {} UNION SELECT -1 FROM {}", a, b), vec![s(a), s(b)]),
        29 => (format!("SELECT k FROM {} ORDER BY k IN (SELECT k FROM {})", a, b), vec![s(a), s(b)]),
        // TC references TA: emptying TA with CASCADE empties TC as well
        30 => ("TRUNCATE TABLE TA CASCADE".to_string(), vec![d("TA"), d("TC")]),
        31 => (format!("TRUNCATE TABLE {}", if a == "TA" { "TC" } else { "TB" }), vec![d(if a == "TA" { "TC" } else { "TB" })]),
        32 => (format!("WITH c AS (SELECT 1 AS one FROM {}) SELECT COUNT(*) FROM {}", b, a), vec![s(a), s(b)]),
        0 => (format!("SELECT * FROM {}", a), vec![s(a)]),
        1 => (format!("SELECT * FROM {} WHERE v = {}", a, lit), vec![s(a)]),
        2 => (format!("SELECT * FROM {} WHERE k = {}", a, lit), vec![s(a)]),
        3 => (format!("SELECT COUNT(*) FROM {}", a), vec![s(a)]),
        4 => (format!("SELECT SUM(v), MIN(k) FROM {} WHERE v >= {}", a, lit), vec![s(a)]),
        5 => (format!("SELECT x.k, y.v FROM {} x, {} y WHERE x.k = y.k", a, b), vec![s(a), s(b)]),
        6 => (format!("SELECT x.k FROM {} x INNER JOIN {} y ON x.k = y.k", a, b), vec![s(a), s(b)]),
        7 => (format!("SELECT x.k FROM {} x LEFT JOIN {} y ON x.k = y.k", a, b), vec![s(a), s(b)]),
        8 => (format!("SELECT * FROM {} WHERE k IN (SELECT k FROM {})", a, b), vec![s(a), s(b)]),
        9 => (format!("SELECT * FROM {} WHERE k NOT IN (SELECT k FROM {})", a, b), vec![s(a), s(b)]),
        10 => (format!("SELECT * FROM {} x WHERE EXISTS (SELECT 1 FROM {} y WHERE y.k = x.k)", a, b), vec![s(a), s(b)]),
        11 => (format!("SELECT k, (SELECT COUNT(*) FROM {}) FROM {}", b, a), vec![s(a), s(b)]),
        12 => (format!("SELECT * FROM (SELECT k, v FROM {}) d WHERE d.v >= {}", a, lit), vec![s(a)]),
        13 => (format!("WITH c AS (SELECT k, v FROM {}) SELECT * FROM c", a), vec![s(a)]),
        14 => (format!("SELECT k FROM {} UNION SELECT k FROM {}", a, b), vec![s(a), s(b)]),
        15 => ("SELECT * FROM VA".to_string(), vec![s("TA")]),
        16 => (format!("SELECT * FROM {} WHERE k IN (SELECT k FROM VA)", b), vec![s(b), s("TA")]),
        17 => (format!("INSERT INTO {} VALUES ({}, {})", a, k, lit), vec![(a.to_string(), "INSERT".to_string())]),
        18 => (format!("INSERT INTO {} SELECT * FROM {}", a, b), vec![(a.to_string(), "INSERT".to_string()), s(b)]),
        19 => (format!("INSERT INTO {} (k, v) SELECT k + {}, v FROM {}", a, 1000 + k, b), vec![(a.to_string(), "INSERT".to_string()), s(b)]),
        20 => (format!("UPDATE {} SET v = {}", a, lit), vec![(a.to_string(), "UPDATE".to_string())]),
        21 => (format!("UPDATE {} SET v = (SELECT MAX(v) FROM {})", a, b), vec![(a.to_string(), "UPDATE".to_string()), s(b)]),
        22 => (format!("DELETE FROM {} WHERE k IN (SELECT k FROM {})", a, b), vec![(a.to_string(), "DELETE".to_string()), s(b)]),
        23 => (format!("DELETE FROM {}", a), vec![(a.to_string(), "DELETE".to_string())]),
        24 => (format!("SELECT DISTINCT v FROM {} ORDER BY v", a), vec![s(a)]),
        _ => (format!("SELECT v, COUNT(*) FROM {} GROUP BY v", a), vec![s(a)]),
    }
}

impl Sec {
    fn as_admin(&mut self, sql: &str) -> Out {
        self.sut.db.set_role(Some("ADMIN".into()));
        let o = self.sut.exec(sql);
        self.sut.db.set_role(Some(self.role.clone()));
        o
    }
    fn contents(&self) -> Vec<Vec<String>> {
        WATCHED.iter().map(|t| bag(&table_rows(&self.sut, t).unwrap_or_default())).collect()
    }
}

impl Scenario for Sec {
    const NAME: &'static str = "sec";

    fn new(_prop: &str, sw: &Swarm) -> Self {
        let mut sut = Sut::new();
        sut.db.enable_security();
        sut.db.set_role(Some("ADMIN".into()));
        Sec { sut, sw: sw.clone(), setup: Vec::new(), started: false, grants: BTreeSet::new(), role: "ADMIN".into(), next_key: 0 }
    }

    fn next_op(&mut self, rng: &mut Rng, _cx: &mut Ctx) -> Option<Op> {
        if !self.started {
            self.started = true;
            let adm = |sql: &str| Op::new(Kind::Security, sql.to_string());
            let mut v = vec![
                adm("CREATE TABLE ta (k INTEGER PRIMARY KEY, v INTEGER)"),
                adm("CREATE TABLE tb (k INTEGER PRIMARY KEY, v INTEGER)"),
                adm("INSERT INTO ta VALUES (0, 1), (1, 3), (2, 3), (3, 5)"),
                adm("INSERT INTO tb VALUES (1, 0), (2, 3), (4, 4)"),
                adm("CREATE VIEW va AS SELECT k, v FROM ta"),
                adm("CREATE TABLE tc (k INTEGER PRIMARY KEY, p INTEGER, FOREIGN KEY (p) REFERENCES ta(k))"),
                adm("INSERT INTO tc VALUES (1, 0), (2, 1)"),
                adm("CREATE ROLE r1"),
                adm("CREATE ROLE r2"),
            ];
            if rng.chance(1, 2) {
                v.push(adm("CREATE INDEX ixa ON ta (v)"));
            }
            if rng.chance(1, 2) {
                v.push(adm("CREATE INDEX ixb ON tb (k)"));
            }
            v.push(Op::new(Kind::SetRole, String::new()).named(*rng.pick(&ROLES)));
            v.reverse();
            self.setup = v;
        }
        if let Some(op) = self.setup.pop() {
            return Some(op);
        }
        Some(match rng.below(12) {
            0 | 1 | 2 => {
                let r = *rng.pick(&ROLES);
                let t = *rng.pick(&WATCHED);
                let p = if rng.chance(1, 6) { "ALL PRIVILEGES".to_string() } else { rng.pick(&PRIVS).to_string() };
                let mut op = Op::new(Kind::Security, format!("GRANT {} ON {} TO {}", p, t, r)).table(t).named(r);
                op.fault = format!("grant:{}", p);
                op
            }
            3 | 4 => {
                let r = *rng.pick(&ROLES);
                let t = *rng.pick(&WATCHED);
                let p = if rng.chance(1, 6) { "ALL PRIVILEGES".to_string() } else { rng.pick(&PRIVS).to_string() };
                let mut op = Op::new(Kind::Security, format!("REVOKE {} ON {} FROM {}", p, t, r)).table(t).named(r);
                op.fault = format!("revoke:{}", p);
                op
            }
            5 => Op::new(Kind::SetRole, String::new()).named(*rng.pick(&ROLES)),
            7 if rng.chance(1, 2) => {
                // column-level grants / revokes: they never amount to the table-level privilege the
                // statements below need, so the model ignores them (fault label "column")
                let r = *rng.pick(&ROLES);
                let t = *rng.pick(&TABLES);
                let p = *rng.pick(&["SELECT", "INSERT", "UPDATE"]);
                let c = *rng.pick(&["k", "v", "k, v"]);
                let sql = if rng.chance(2, 3) { format!("GRANT {} ({}) ON {} TO {}", p, c, t, r) } else { format!("REVOKE {} ({}) ON {} FROM {}", p, c, t, r) };
                let mut op = Op::new(Kind::Security, sql);
                op.fault = "column:".into();
                op
            }
            6 if rng.chance(1, 2) => {
                // keep the tables populated (as ADMIN)
                self.next_key += 1;
                let t = *rng.pick(&TABLES);
                if rng.chance(1, 3) {
                    Op::new(Kind::Security, format!("INSERT INTO tc VALUES ({}, NULL)", 500 + self.next_key))
                } else {
                    Op::new(Kind::Security, format!("INSERT INTO {} VALUES ({}, {})", t, 500 + self.next_key, rng.range(0, 6)))
                }
            }
            _ => {
                let (sql, needs) = gen_statement(rng, &mut self.next_key);
                let mut op = Op::new(Kind::Other, sql);
                op.cols = needs.iter().map(|(t, p)| format!("{}:{}", t, p)).collect();
                op
            }
        })
    }

    fn step(&mut self, op: &Op, cx: &mut Ctx) -> Step {
        match &op.kind {
            Kind::SetRole => {
                self.role = op.name.clone().unwrap_or_else(|| "R1".into());
                self.sut.db.set_role(Some(self.role.clone()));
                cx.log.str(&self.role);
                Step::Continue
            }
            Kind::Security => {
                let out = self.as_admin(&op.sql);
                cx.log.str(out.class());
                cx.sig.str(out.class());
                if let Out::Panic(p) = &out {
                    return Step::EndForeign(format!("panic:{}", p.chars().take(40).collect::<String>()));
                }
                if out.is_ok() {
                    cx.state_changes += 1;
                    if let (Some(t), Some(r)) = (&op.table, &op.name) {
                        let (kind, p) = op.fault.split_once(':').unwrap_or(("", ""));
                        let privs: Vec<&str> = if p == "ALL PRIVILEGES" { PRIVS.to_vec() } else { vec![p] };
                        for p in privs {
                            let key = (r.clone(), t.clone(), p.to_string());
                            match kind {
                                "grant" => {
                                    self.grants.insert(key);
                                }
                                "revoke" => {
                                    self.grants.remove(&key);
                                }
                                _ => {}
                            }
                        }
                        cx.reach(kind);
                    }
                }
                Step::Continue
            }
            _ => {
                let needs: Vec<(String, String)> = op.cols.iter().filter_map(|c| c.split_once(':').map(|(t, p)| (t.to_string(), p.to_string()))).collect();
                let admin = self.role == "ADMIN" || self.role == "DBA";
                let missing: Vec<&(String, String)> = needs.iter().filter(|(t, p)| !admin && !self.grants.contains(&(self.role.clone(), t.clone(), p.clone()))).collect();
                let before = self.contents();
                let nonempty = before.iter().all(|t| !t.is_empty());
                let out = self.sut.exec(&op.sql);
                cx.log.str(out.class());
                cx.sig.str(out.class());
                if let Out::Panic(p) = &out {
                    return Step::EndForeign(format!("panic:{}", p.chars().take(40).collect::<String>()));
                }
                if missing.is_empty() {
                    cx.reach(if out.is_ok() { "granted_and_allowed" } else { "granted_but_refused" });
                    if out.is_ok() {
                        cx.state_changes += 1;
                    }
                    return Step::Continue;
                }
                if !nonempty {
                    // with an empty table a statement may legitimately finish without reading anything
                    cx.reach("vacuous_empty_table");
                    return Step::Continue;
                }
                cx.eval("c26.denied");
                if out.is_ok() {
                    return cx.violation("c26.denied", format!("role {} lacks {:?} (grants: {:?}) but `{}` succeeded: {}", self.role, missing, self.grants.iter().filter(|g| g.0 == self.role).collect::<Vec<_>>(), op.sql, out.brief()));
                }
                cx.eval("c26.denied_unchanged");
                let after = self.contents();
                if after != before {
                    return cx.violation("c26.denied_unchanged", format!("role {} lacks {:?}; `{}` failed ({}) but changed the tables: {:?} -> {:?}", self.role, missing, op.sql, out.brief(), before, after));
                }
                Step::Continue
            }
        }
    }
}
