//! What the harness knows about the declared schema, derived only from (operation, outcome) pairs,
//! so that replaying an explicit operation list reconstructs it exactly.

use crate::ops::*;
use crate::sut::Out;
use std::collections::BTreeMap;

#[derive(Clone, Debug, Default)]
pub struct World {
    pub tables: BTreeMap<String, TableDef>,
    pub indexes: BTreeMap<String, IndexDef>,
    pub views: BTreeMap<String, String>,
    pub triggers: BTreeMap<String, String>,
    pub in_tx: bool,
    /// live savepoints, innermost last
    pub savepoints: Vec<String>,
    pub next_name: u64,
}

impl World {
    pub fn fresh_name(&mut self, prefix: &str) -> String {
        self.next_name += 1;
        format!("{}{}", prefix, self.next_name)
    }
    pub fn table_names(&self) -> Vec<String> {
        self.tables.keys().cloned().collect()
    }
    pub fn indexes_of(&self, table: &str) -> Vec<&IndexDef> {
        self.indexes.values().filter(|i| i.table == table).collect()
    }

    /// Update the declared schema after the SUT accepted `op`.
    pub fn apply(&mut self, op: &Op, out: &Out) {
        if !out.is_ok() {
            return;
        }
        match &op.kind {
            Kind::CreateTable => {
                if let Some(d) = &op.def {
                    self.tables.insert(d.name.clone(), d.clone());
                }
            }
            Kind::DropTable => {
                if let Some(t) = &op.table {
                    self.tables.remove(t);
                    self.indexes.retain(|_, i| &i.table != t);
                }
            }
            Kind::CreateIndex => {
                if let Some(i) = &op.idx {
                    self.indexes.insert(i.name.clone(), i.clone());
                }
            }
            Kind::DropIndex => {
                if let Some(n) = &op.name {
                    self.indexes.remove(n);
                }
            }
            Kind::CreateView => {
                if let Some(n) = &op.name {
                    self.views.insert(n.clone(), op.pred.clone().unwrap_or_default());
                }
            }
            Kind::DropView => {
                if let Some(n) = &op.name {
                    self.views.remove(n);
                }
            }
            Kind::CreateTrigger => {
                if let Some(n) = &op.name {
                    self.triggers.insert(n.clone(), op.table.clone().unwrap_or_default());
                }
            }
            Kind::DropTrigger => {
                if let Some(n) = &op.name {
                    self.triggers.remove(n);
                }
            }
            Kind::Begin => {
                self.in_tx = true;
                self.savepoints.clear();
            }
            Kind::Commit | Kind::Rollback => {
                self.in_tx = false;
                self.savepoints.clear();
            }
            Kind::Savepoint => {
                if let Some(n) = &op.name {
                    self.savepoints.push(n.clone());
                }
            }
            Kind::Alter => {
                if let Some(d) = &op.def {
                    // ALTER ops carry the post-alter definition
                    self.tables.insert(d.name.clone(), d.clone());
                }
            }
            _ => {}
        }
    }
}
