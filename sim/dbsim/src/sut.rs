//! The system under test, driven through its public executor API exactly as the repository's own
//! front-ends (CLI, server session, sqllogictest adapter) drive it: parse, then dispatch on the
//! statement kind to the matching executor. All calls run under `catch_unwind`.

use simcore::runner::catch;
use vibesql_ast::Statement;
use vibesql_storage::Database;
use vibesql_types::SqlValue;

#[derive(Clone, Debug, PartialEq)]
pub enum Out {
    Rows(Vec<Vec<SqlValue>>),
    Count(usize),
    Done,
    Err(String),
    Panic(String),
}

impl Out {
    pub fn is_ok(&self) -> bool {
        matches!(self, Out::Rows(_) | Out::Count(_) | Out::Done)
    }
    pub fn is_err(&self) -> bool {
        matches!(self, Out::Err(_))
    }
    pub fn is_panic(&self) -> bool {
        matches!(self, Out::Panic(_))
    }
    pub fn class(&self) -> &'static str {
        match self {
            Out::Rows(_) => "rows",
            Out::Count(_) => "count",
            Out::Done => "done",
            Out::Err(_) => "err",
            Out::Panic(_) => "panic",
        }
    }
    pub fn brief(&self) -> String {
        match self {
            Out::Rows(r) => format!("rows({})", r.len()),
            Out::Count(n) => format!("count({})", n),
            Out::Done => "done".into(),
            Out::Err(e) => format!("err({})", e.chars().take(160).collect::<String>()),
            Out::Panic(p) => format!("PANIC({})", p),
        }
    }
}

pub struct Sut {
    pub db: Database,
}

fn e<T: std::fmt::Display>(x: T) -> String {
    x.to_string()
}

pub fn dispatch(db: &mut Database, stmt: Statement) -> Result<Out, String> {
    use vibesql_executor as ex;
    Ok(match stmt {
        Statement::Select(s) => {
            let rows = ex::SelectExecutor::new(db).execute(&s).map_err(e)?;
            Out::Rows(rows.into_iter().map(|r| r.values).collect())
        }
        Statement::Insert(s) => Out::Count(ex::InsertExecutor::execute(db, &s).map_err(e)?),
        Statement::Update(s) => Out::Count(ex::UpdateExecutor::execute(&s, db).map_err(e)?),
        Statement::Delete(s) => Out::Count(ex::DeleteExecutor::execute(&s, db).map_err(e)?),
        Statement::CreateTable(s) => {
            ex::CreateTableExecutor::execute(&s, db).map_err(e)?;
            Out::Done
        }
        Statement::DropTable(s) => {
            ex::DropTableExecutor::execute(&s, db).map_err(e)?;
            Out::Done
        }
        Statement::TruncateTable(s) => Out::Count(ex::TruncateTableExecutor::execute(&s, db).map_err(e)?),
        Statement::AlterTable(s) => {
            ex::AlterTableExecutor::execute(&s, db).map_err(e)?;
            Out::Done
        }
        Statement::CreateIndex(s) => {
            ex::IndexExecutor::execute(&s, db).map_err(e)?;
            Out::Done
        }
        Statement::DropIndex(s) => {
            ex::IndexExecutor::execute_drop(&s, db).map_err(e)?;
            Out::Done
        }
        Statement::Reindex(s) => {
            ex::IndexExecutor::execute_reindex(&s, db).map_err(e)?;
            Out::Done
        }
        Statement::Analyze(s) => {
            ex::AnalyzeExecutor::execute(&s, db).map_err(e)?;
            Out::Done
        }
        Statement::CreateView(s) => {
            ex::advanced_objects::execute_create_view(&s, db).map_err(e)?;
            Out::Done
        }
        Statement::DropView(s) => {
            ex::advanced_objects::execute_drop_view(&s, db).map_err(e)?;
            Out::Done
        }
        Statement::CreateTrigger(s) => {
            ex::TriggerExecutor::create_trigger(db, &s).map_err(e)?;
            Out::Done
        }
        Statement::DropTrigger(s) => {
            ex::TriggerExecutor::drop_trigger(db, &s).map_err(e)?;
            Out::Done
        }
        Statement::BeginTransaction(s) => {
            ex::BeginTransactionExecutor::execute(&s, db).map_err(e)?;
            Out::Done
        }
        Statement::Commit(s) => {
            ex::CommitExecutor::execute(&s, db).map_err(e)?;
            Out::Done
        }
        Statement::Rollback(s) => {
            ex::RollbackExecutor::execute(&s, db).map_err(e)?;
            Out::Done
        }
        Statement::Savepoint(s) => {
            ex::SavepointExecutor::execute(&s, db).map_err(e)?;
            Out::Done
        }
        Statement::RollbackToSavepoint(s) => {
            ex::RollbackToSavepointExecutor::execute(&s, db).map_err(e)?;
            Out::Done
        }
        Statement::ReleaseSavepoint(s) => {
            ex::ReleaseSavepointExecutor::execute(&s, db).map_err(e)?;
            Out::Done
        }
        Statement::CreateRole(s) => {
            ex::RoleExecutor::execute_create_role(&s, db).map_err(e)?;
            Out::Done
        }
        Statement::DropRole(s) => {
            ex::RoleExecutor::execute_drop_role(&s, db).map_err(e)?;
            Out::Done
        }
        Statement::Grant(s) => {
            ex::GrantExecutor::execute_grant(&s, db).map_err(e)?;
            Out::Done
        }
        Statement::Revoke(s) => {
            ex::RevokeExecutor::execute_revoke(&s, db).map_err(e)?;
            Out::Done
        }
        Statement::CreateSchema(s) => {
            ex::SchemaExecutor::execute_create_schema(&s, db).map_err(e)?;
            Out::Done
        }
        Statement::SetVariable(s) => {
            ex::SchemaExecutor::execute_set_variable(&s, db).map_err(e)?;
            Out::Done
        }
        other => return Err(format!("statement kind not driven by the harness: {:?}", std::mem::discriminant(&other))),
    })
}

impl Sut {
    pub fn new() -> Sut {
        Sut { db: Database::new() }
    }
    pub fn from_db(db: Database) -> Sut {
        Sut { db }
    }

    /// Parse and execute one statement.
    pub fn exec(&mut self, sql: &str) -> Out {
        let db = &mut self.db;
        match catch(move || {
            // the parser of the pinned tree has no ANALYZE statement (only the AST and the executor exist):
            // `ANALYZE <table>` is handed to the executor directly, as an embedding application would
            let stmt = match sql.trim().strip_prefix("ANALYZE ") {
                Some(t) if !t.trim().is_empty() && t.trim().chars().all(|c| c.is_ascii_alphanumeric() || c == '_') => {
                    vibesql_ast::Statement::Analyze(vibesql_ast::AnalyzeStmt { table_name: Some(t.trim().to_uppercase()), columns: None })
                }
                _ => match vibesql_parser::Parser::parse_sql(sql) {
                    Ok(s) => s,
                    Err(pe) => return Out::Err(format!("parse: {}", pe)),
                },
            };
            match dispatch(db, stmt) {
                Ok(o) => o,
                Err(m) => Out::Err(m),
            }
        }) {
            Ok(o) => o,
            Err(p) => Out::Panic(p),
        }
    }

    /// Read-only query (SELECT only); never mutates.
    pub fn query(&self, sql: &str) -> Out {
        let db = &self.db;
        match catch(move || {
            let stmt = match vibesql_parser::Parser::parse_sql(sql) {
                Ok(s) => s,
                Err(pe) => return Out::Err(format!("parse: {}", pe)),
            };
            match stmt {
                Statement::Select(s) => match vibesql_executor::SelectExecutor::new(db).execute(&s) {
                    Ok(rows) => Out::Rows(rows.into_iter().map(|r| r.values).collect()),
                    Err(x) => Out::Err(x.to_string()),
                },
                _ => Out::Err("query(): not a SELECT".into()),
            }
        }) {
            Ok(o) => o,
            Err(p) => Out::Panic(p),
        }
    }
}

/// Canonical, total, bit-exact text form of a value (variant included), used for equality of
/// results between twins and snapshots. NaN == NaN here, -0.0 != 0.0.
pub fn canon(v: &SqlValue) -> String {
    match v {
        SqlValue::Float(f) => format!("Float#{:08x}", f.to_bits()),
        SqlValue::Real(f) => format!("Real#{:08x}", f.to_bits()),
        SqlValue::Double(f) => format!("Double#{:016x}", f.to_bits()),
        SqlValue::Numeric(f) => format!("Numeric#{:016x}", f.to_bits()),
        other => format!("{:?}", other),
    }
}

pub fn canon_row(r: &[SqlValue]) -> String {
    let mut s = String::new();
    for (i, v) in r.iter().enumerate() {
        if i > 0 {
            s.push('|');
        }
        s.push_str(&canon(v));
    }
    s
}

/// Rows as a sorted multiset of canonical strings.
pub fn bag(rows: &[Vec<SqlValue>]) -> Vec<String> {
    let mut v: Vec<String> = rows.iter().map(|r| canon_row(r)).collect();
    v.sort();
    v
}

pub fn seq(rows: &[Vec<SqlValue>]) -> Vec<String> {
    rows.iter().map(|r| canon_row(r)).collect()
}
