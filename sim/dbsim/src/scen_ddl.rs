//! C33 — schema changes keep catalog, storage and indexes consistent.
//!
//! One database, one seeded history of DDL (CREATE/DROP TABLE, CREATE/DROP INDEX, ALTER TABLE add /
//! drop / change column, rename table, add / drop constraint) and DML over a *small pool of names
//! written in random identifier case*, so that names are reused and every registry is reached through
//! differently normalised spellings. The harness keeps a model of which objects must exist (built from
//! the statements the engine accepted) and after every step compares, on the real engine:
//!   - the catalog listing, the storage listing and the model (tables, columns in order),
//!   - every listed table is queryable, rows have the declared arity,
//!   - both index registries (catalog, storage) only describe existing tables and columns,
//!   - every user index holds exactly what the same CREATE INDEX builds from the current rows,
//!   - constraint hash indexes equal their rebuild,
//!   - ALTER TABLE keeps the data of retained columns,
//!   - an index-driven probe equals the same probe with index scans switched off (guarded hook).

use crate::driver::{Ctx, Scenario, Step};
use crate::gen::Swarm;
use crate::ops::*;
use crate::sut::{bag, canon_row, Out, Sut};
use simcore::Rng;
use std::collections::{BTreeMap, BTreeSet};
use vibesql_types::verif::{self, site};
use vibesql_types::SqlValue;

// "xta" ends in "ta": registries keyed by differently qualified names must not confuse the two
const TABLES: [&str; 4] = ["ta", "tb", "tc", "xta"];
const COLS: [&str; 7] = ["k", "ca", "cb", "cc", "cd", "ce", "cf"];
const INDEXES: [&str; 4] = ["ixa", "ixb", "ixc", "ixd"];
const STRS: [&str; 5] = ["", "a", "b", "ab", "B"];

#[derive(Clone, Debug, PartialEq)]
struct MCol {
    name: String,
    ty: Ty,
}

pub struct Ddl {
    sut: Sut,
    sw: Swarm,
    /// expected tables (upper-case name) with their columns in order
    tabs: BTreeMap<String, Vec<MCol>>,
    /// expected user indexes (upper-case name); table and column names upper-case
    idx: BTreeMap<String, IndexDef>,
    /// named constraints added through ALTER TABLE (table, constraint name)
    cons: BTreeSet<(String, String)>,
    n_cons: usize,
}

fn up(s: &str) -> String {
    s.to_uppercase()
}

fn unq(n: &str) -> String {
    n.rsplit('.').next().unwrap_or(n).to_uppercase()
}

/// the same identifier in a random case
fn cs(rng: &mut Rng, name: &str) -> String {
    match rng.below(3) {
        0 => name.to_lowercase(),
        1 => name.to_uppercase(),
        _ => {
            let mut c = name.to_lowercase().chars().collect::<Vec<_>>();
            if let Some(f) = c.first_mut() {
                *f = f.to_ascii_uppercase();
            }
            c.into_iter().collect()
        }
    }
}

fn ty_sql(t: &Ty) -> String {
    match t {
        Ty::Int => "INTEGER".into(),
        Ty::Str(n) => format!("VARCHAR({})", n),
    }
}

fn lit_for(rng: &mut Rng, t: &Ty, domain: i64) -> Lit {
    match t {
        Ty::Int => Lit::Int(rng.range(0, domain.max(2))),
        Ty::Str(_) => Lit::Str(rng.pick(&STRS).to_string()),
    }
}

impl Ddl {
    fn table_cols(&self, t: &str) -> Vec<MCol> {
        self.tabs.get(t).cloned().unwrap_or_default()
    }

    fn stored(&self, t: &str) -> Option<(Vec<String>, Vec<Vec<SqlValue>>)> {
        let tb = self.sut.db.get_table(t)?;
        let cols = tb.schema.columns.iter().map(|c| up(&c.name)).collect();
        let rows = tb.scan().iter().map(|r| r.values.clone()).collect();
        Some((cols, rows))
    }

    /// projection of the stored rows onto the named columns (bag of canonical rows)
    fn projection(stored: &(Vec<String>, Vec<Vec<SqlValue>>), cols: &[String]) -> Option<Vec<String>> {
        let pos: Option<Vec<usize>> = cols.iter().map(|c| stored.0.iter().position(|x| x == c)).collect();
        let pos = pos?;
        let mut rows = Vec::new();
        for r in &stored.1 {
            let mut v = Vec::new();
            for &p in &pos {
                v.push(r.get(p)?.clone());
            }
            rows.push(v);
        }
        Some(bag(&rows))
    }

    fn consistency(&mut self, cx: &mut Ctx) -> Option<(String, String)> {
        // 1. listings
        let mut cat: Vec<String> = self.sut.db.catalog.list_tables().iter().map(|n| unq(n)).collect();
        cat.sort();
        let mut sto: Vec<String> = self.sut.db.list_tables().iter().map(|n| unq(n)).collect();
        sto.sort();
        let model: Vec<String> = self.tabs.keys().cloned().collect();
        cx.eval("c33.listing");
        if cat != model {
            return Some(("c33.listing".into(), format!("catalog lists tables {:?}, accepted statements imply {:?}", cat, model)));
        }
        if sto != model {
            return Some(("c33.listing".into(), format!("storage lists tables {:?}, catalog lists {:?}", sto, cat)));
        }
        // 2. per table: declared columns, stored schema, arity, queryable
        for (t, cols) in &self.tabs {
            let want: Vec<String> = cols.iter().map(|c| c.name.clone()).collect();
            let cat_cols: Vec<String> = match self.sut.db.catalog.get_table(t) {
                Some(s) => s.columns.iter().map(|c| up(&c.name)).collect(),
                None => return Some(("c33.listing".into(), format!("table {} is listed but the catalog cannot resolve it", t))),
            };
            cx.eval("c33.columns");
            if cat_cols != want {
                return Some(("c33.columns".into(), format!("table {}: catalog columns {:?}, accepted statements imply {:?}", t, cat_cols, want)));
            }
            let st = match self.stored(t) {
                Some(s) => s,
                None => return Some(("c33.listing".into(), format!("table {} is listed but storage cannot resolve it", t))),
            };
            if st.0 != want {
                return Some(("c33.columns".into(), format!("table {}: stored schema columns {:?}, catalog columns {:?}", t, st.0, cat_cols)));
            }
            if let Some(bad) = st.1.iter().find(|r| r.len() != want.len()) {
                return Some(("c33.columns".into(), format!("table {}: a stored row has {} values for {} columns: {}", t, bad.len(), want.len(), canon_row(bad))));
            }
            cx.eval("c33.queryable");
            match self.sut.query(&format!("SELECT * FROM {}", t)) {
                Out::Rows(r) => {
                    if r.len() != st.1.len() || r.iter().any(|x| x.len() != want.len()) {
                        return Some(("c33.queryable".into(), format!("SELECT * FROM {} returns {} rows of widths {:?}; stored: {} rows of {} columns", t, r.len(), r.iter().map(|x| x.len()).collect::<BTreeSet<_>>(), st.1.len(), want.len())));
                    }
                }
                o => return Some(("c33.queryable".into(), format!("SELECT * FROM {} (a listed table) : {}", t, o.brief()))),
            }
        }
        // 3. index registries describe existing objects
        let mut live: Vec<String> = self.sut.db.list_indexes().iter().map(|n| up(n)).collect();
        live.sort();
        for n in &live {
            cx.eval("c33.index_registry");
            let meta = match self.sut.db.get_index(n) {
                Some(m) => m.clone(),
                None => return Some(("c33.index_registry".into(), format!("index {} is listed but has no metadata", n))),
            };
            let t = unq(&meta.table_name);
            let cols = match self.tabs.get(&t) {
                Some(c) => c,
                None => return Some(("c33.index_registry".into(), format!("index {} belongs to table {}, which does not exist (tables: {:?})", n, t, model))),
            };
            for c in &meta.columns {
                if !cols.iter().any(|m| m.name == up(&c.column_name)) {
                    return Some(("c33.index_registry".into(), format!("index {} on {} names column {}, which the table does not have (columns: {:?})", n, t, c.column_name, cols.iter().map(|c| &c.name).collect::<Vec<_>>())));
                }
            }
            if !self.idx.contains_key(n) {
                return Some(("c33.index_registry".into(), format!("index {} on {} exists although no accepted statement accounts for it (dropped or never created)", n, t)));
            }
            if self.sut.db.get_index_data(n).is_none() {
                return Some(("c33.index_registry".into(), format!("index {} is listed but has no data", n)));
            }
        }
        for m in self.sut.db.catalog.list_all_indexes() {
            cx.eval("c33.index_registry");
            let t = unq(&m.table_name);
            let cols = match self.tabs.get(&t) {
                Some(c) => c,
                None => return Some(("c33.index_registry".into(), format!("catalog index {} belongs to table {}, which does not exist", m.name, t))),
            };
            for c in &m.columns {
                if !cols.iter().any(|x| x.name == up(&c.column_name)) {
                    return Some(("c33.index_registry".into(), format!("catalog index {} on {} names column {}, which the table does not have", m.name, t, c.column_name)));
                }
            }
        }
        // both registries list the same B-tree indexes
        let mut cat_ix: Vec<String> = self.sut.db.catalog.list_all_indexes().iter().filter(|m| matches!(m.index_type, vibesql_catalog::IndexType::BTree)).map(|m| up(&m.name)).collect();
        cat_ix.sort();
        cx.eval("c33.index_registry");
        if cat_ix != live {
            return Some(("c33.index_registry".into(), format!("the catalog lists indexes {:?}, the storage index registry lists {:?}", cat_ix, live)));
        }
        // an index the engine dropped on its own (e.g. with its column) is not demanded back
        let gone: Vec<String> = self.idx.keys().filter(|k| !live.contains(k)).cloned().collect();
        for g in gone {
            cx.reach("index_dropped_implicitly");
            self.idx.remove(&g);
        }
        // 4. user index contents = what CREATE INDEX builds from the current rows
        for (n, def) in &self.idx {
            let live = match self.sut.db.get_index_data(n) {
                Some(d) => d,
                None => continue,
            };
            let mut clone = Sut::from_db(self.sut.db.clone());
            if !clone.exec(&format!("DROP INDEX {}", n)).is_ok() {
                continue;
            }
            if !clone.exec(&def.create_sql()).is_ok() {
                continue;
            }
            let fresh = match clone.db.get_index_data(n) {
                Some(d) => d,
                None => continue,
            };
            let dump = |d: &vibesql_storage::IndexData| -> Vec<(String, Vec<usize>)> {
                let mut v: Vec<(String, Vec<usize>)> = d
                    .iter()
                    .map(|(k, mut p)| {
                        p.sort();
                        (canon_row(&k), p)
                    })
                    .filter(|(_, p)| !p.is_empty())
                    .collect();
                v.sort();
                v
            };
            cx.eval("c33.index_data");
            let (a, b) = (dump(live), dump(fresh));
            if a != b {
                return Some(("c33.index_data".into(), format!("index {} on {}: holds {:?}, but {} on the current rows builds {:?}", n, def.table, a, def.create_sql(), b)));
            }
        }
        // 5. constraint hash indexes
        for t in self.tabs.keys() {
            if let Some(tb) = self.sut.db.get_table(t) {
                let mut fresh = tb.clone();
                fresh.rebuild_indexes();
                let norm = |m: Option<&std::collections::HashMap<Vec<SqlValue>, usize>>| -> Option<Vec<(String, usize)>> {
                    m.map(|m| {
                        let mut v: Vec<(String, usize)> = m.iter().map(|(k, p)| (canon_row(k), *p)).collect();
                        v.sort();
                        v
                    })
                };
                cx.eval("c33.constraint_index");
                let (a, b) = (norm(tb.primary_key_index()), norm(fresh.primary_key_index()));
                if a != b {
                    return Some(("c33.constraint_index".into(), format!("table {}: primary-key index {:?} differs from rebuild {:?}", t, a, b)));
                }
                let ua: Vec<_> = tb.unique_indexes().iter().map(|m| norm(Some(m))).collect();
                let ub: Vec<_> = fresh.unique_indexes().iter().map(|m| norm(Some(m))).collect();
                if ua != ub {
                    return Some(("c33.constraint_index".into(), format!("table {}: unique index {:?} differs from rebuild {:?}", t, ua, ub)));
                }
            }
        }
        None
    }

    fn gen_create_table(&self, rng: &mut Rng, t: &str) -> Op {
        let n = 2 + rng.usize(3);
        let mut cols = vec![ColDef { name: "k".into(), ty: Ty::Int, not_null: false }];
        let mut pool: Vec<&str> = COLS[1..].to_vec();
        while cols.len() < n && !pool.is_empty() {
            let c = pool.remove(rng.usize(pool.len()));
            let ty = if rng.chance(1, 3) { Ty::Str(8) } else { Ty::Int };
            cols.push(ColDef { name: c.into(), ty, not_null: false });
        }
        let pk = if rng.chance(1, 2) { vec![0] } else { vec![] };
        let uniques = if cols.len() > 2 && rng.chance(1, 4) { vec![vec![1]] } else { vec![] };
        let mut def = TableDef { name: cs(rng, t), cols, pk, uniques, ..Default::default() };
        for c in def.cols.iter_mut() {
            c.name = cs(rng, &c.name);
        }
        Op::create_table(def).table(&up(t))
    }

    fn gen_dml(&self, rng: &mut Rng, t: &str) -> Op {
        let cols = self.table_cols(t);
        let d = self.sw.domain.min(8);
        let tn = cs(rng, t);
        match rng.below(6) {
            0..=3 => {
                let n = 1 + rng.usize(self.sw.max_rows_stmt.max(1));
                let names: Vec<String> = cols.iter().map(|c| cs(rng, &c.name)).collect();
                let rows = (0..n)
                    .map(|_| cols.iter().map(|c| if rng.chance(self.sw.null_pct, 200) && c.name != "K" { Lit::Null } else { lit_for(rng, &c.ty, if c.name == "K" { 40 } else { d }) }).collect())
                    .collect();
                Op::insert(&tn, &names, rows).table(&up(t))
            }
            4 => {
                let c = rng.pick(&cols).clone();
                let w = rng.pick(&cols).clone();
                let sets = vec![(cs(rng, &c.name), lit_for(rng, &c.ty, d).sql())];
                let pred = format!("{} {} {}", cs(rng, &w.name), rng.pick(&Cmp::ALL).sql(), lit_for(rng, &w.ty, d).sql());
                Op::update(&tn, sets, Some(pred)).table(&up(t))
            }
            _ => {
                let w = rng.pick(&cols).clone();
                let pred = format!("{} {} {}", cs(rng, &w.name), rng.pick(&Cmp::ALL).sql(), lit_for(rng, &w.ty, d).sql());
                Op::delete(&tn, Some(pred)).table(&up(t))
            }
        }
    }

    fn gen_alter(&mut self, rng: &mut Rng, t: &str) -> Op {
        let cols = self.table_cols(t);
        let tn = cs(rng, t);
        let free: Vec<&str> = COLS.iter().copied().filter(|c| !cols.iter().any(|m| m.name == up(c))).collect();
        let alter = |sql: String, code: String| Op::new(Kind::Alter, sql).table(&up(t)).named(&code);
        match rng.below(10) {
            0..=2 if !free.is_empty() => {
                let c = *rng.pick(&free);
                let ty = if rng.chance(1, 3) { Ty::Str(8) } else { Ty::Int };
                let dflt = if rng.chance(1, 3) { format!(" DEFAULT {}", lit_for(rng, &ty, 5).sql()) } else { String::new() };
                alter(format!("ALTER TABLE {} ADD COLUMN {} {}{}", tn, cs(rng, c), ty_sql(&ty), dflt), format!("add:{}:{}", up(c), if ty == Ty::Int { "int" } else { "str" }))
            }
            3..=5 if cols.len() > 1 => {
                let c = rng.pick(&cols).clone();
                alter(format!("ALTER TABLE {} DROP COLUMN {}", tn, cs(rng, &c.name)), format!("drop:{}", c.name))
            }
            6 | 7 if !free.is_empty() => {
                let c = rng.pick(&cols).clone();
                let to = *rng.pick(&free);
                let quoted = !self.sw.guard("c33_no_quoted_identifiers");
                match rng.below(6) {
                    // (known finding C33-quoted-identifier-case keeps these two out of the workload)
                    0 | 1 if !quoted => alter(format!("ALTER TABLE {} CHANGE COLUMN {} {} {}", tn, cs(rng, &c.name), cs(rng, to), ty_sql(&c.ty)), format!("chg:{}:{}", c.name, up(to))),
                    // a quoted identifier keeps its case: rename to the same name in lower case (a change of
                    // spelling only), or to another name written in lower case
                    0 => alter(format!("ALTER TABLE {} CHANGE COLUMN {} \"{}\" {}", tn, cs(rng, &c.name), c.name.to_lowercase(), ty_sql(&c.ty)), format!("chg:{}:{}", c.name, c.name)),
                    1 => alter(format!("ALTER TABLE {} CHANGE COLUMN {} \"{}\" {}", tn, cs(rng, &c.name), to.to_lowercase(), ty_sql(&c.ty)), format!("chg:{}:{}", c.name, up(to))),
                    _ => alter(format!("ALTER TABLE {} CHANGE COLUMN {} {} {}", tn, cs(rng, &c.name), cs(rng, to), ty_sql(&c.ty)), format!("chg:{}:{}", c.name, up(to))),
                }
            }
            8 => {
                let to = *rng.pick(&TABLES);
                alter(format!("ALTER TABLE {} RENAME TO {}", tn, cs(rng, to)), format!("rename:{}", up(to)))
            }
            _ => {
                let named: Vec<String> = self.cons.iter().filter(|(tt, _)| tt == t).map(|(_, n)| n.clone()).collect();
                if !named.is_empty() && rng.chance(1, 2) {
                    let n = rng.pick(&named).clone();
                    alter(format!("ALTER TABLE {} DROP CONSTRAINT {}", tn, cs(rng, &n)), format!("dropc:{}", n))
                } else {
                    self.n_cons += 1;
                    let n = format!("CN{}", self.n_cons % 3);
                    let c = rng.pick(&cols).clone();
                    let others: Vec<String> = self.tabs.keys().filter(|o| *o != t).cloned().collect();
                    let body = match rng.below(4) {
                        3 if !others.is_empty() => {
                            // foreign key onto another table's first column (accepted or not: its business)
                            let o = rng.pick(&others).clone();
                            format!("FOREIGN KEY ({}) REFERENCES {}(k)", cs(rng, &c.name), cs(rng, &o))
                        }
                        0 => format!("UNIQUE ({})", cs(rng, &c.name)),
                        1 if c.ty == Ty::Int => format!("CHECK ({} >= 0)", cs(rng, &c.name)),
                        _ => {
                            let c2 = rng.pick(&cols).name.clone();
                            format!("UNIQUE ({}, {})", cs(rng, &c.name), cs(rng, &c2))
                        }
                    };
                    alter(format!("ALTER TABLE {} ADD CONSTRAINT {} {}", tn, cs(rng, &n), body), format!("addc:{}", n))
                }
            }
        }
    }
}

impl Scenario for Ddl {
    const NAME: &'static str = "ddl";

    fn new(_prop: &str, sw: &Swarm) -> Self {
        verif::set_skip_mask(0);
        Ddl { sut: Sut::new(), sw: sw.clone(), tabs: BTreeMap::new(), idx: BTreeMap::new(), cons: BTreeSet::new(), n_cons: 0 }
    }

    fn next_op(&mut self, rng: &mut Rng, _cx: &mut Ctx) -> Option<Op> {
        let have: Vec<String> = self.tabs.keys().cloned().collect();
        if have.is_empty() || (have.len() < TABLES.len() && rng.chance(1, 6)) {
            // mostly a free name, sometimes an existing one (must be refused)
            let free: Vec<&str> = TABLES.iter().copied().filter(|t| !have.contains(&up(t))).collect();
            let t = if !free.is_empty() && !rng.chance(1, 8) { *rng.pick(&free) } else { *rng.pick(&TABLES) };
            return Some(self.gen_create_table(rng, t));
        }
        let t = rng.pick(&have).clone();
        let cols = self.table_cols(&t);
        let on_t: Vec<IndexDef> = self.idx.values().filter(|d| d.table == t).cloned().collect();
        Some(match rng.below(20) {
            0 => Op::new(Kind::DropTable, format!("DROP TABLE {}", cs(rng, &t))).table(&t),
            1 | 2 | 3 => {
                let name = *rng.pick(&INDEXES);
                let c = rng.pick(&cols).clone();
                let mut ic = vec![(cs(rng, &c.name), None, false)];
                if cols.len() > 1 && rng.chance(1, 3) {
                    let c2 = rng.pick(&cols).clone();
                    if c2.name != c.name {
                        ic.push((cs(rng, &c2.name), None, rng.chance(1, 3)));
                    }
                }
                Op::create_index(IndexDef { name: cs(rng, name), table: cs(rng, &t), unique: rng.chance(1, 6), cols: ic })
            }
            4 if !self.idx.is_empty() => {
                let names: Vec<String> = self.idx.keys().cloned().collect();
                let n = rng.pick(&names).clone();
                Op::new(Kind::DropIndex, format!("DROP INDEX {}", cs(rng, &n))).named(&n)
            }
            5..=9 => self.gen_alter(rng, &t),
            10 | 11 if !on_t.is_empty() => {
                // index-driven probe on the leading column of an index
                let ix = rng.pick(&on_t).clone();
                let lead = up(&ix.cols[0].0);
                let ty = cols.iter().find(|c| c.name == lead).map(|c| c.ty.clone()).unwrap_or(Ty::Int);
                let lit = lit_for(rng, &ty, self.sw.domain.min(8)).sql();
                let p = match rng.below(3) {
                    0 => format!("{} = {}", cs(rng, &lead), lit),
                    1 => format!("{} >= {}", cs(rng, &lead), lit),
                    _ => format!("{} < {}", cs(rng, &lead), lit),
                };
                Op::new(Kind::Probe, format!("SELECT * FROM {} WHERE {}", cs(rng, &t), p)).table(&t)
            }
            _ => self.gen_dml(rng, &t),
        })
    }

    fn step(&mut self, op: &Op, cx: &mut Ctx) -> Step {
        if op.kind == Kind::Probe {
            verif::set_skip_mask(0);
            let with = self.sut.query(&op.sql);
            verif::set_skip_mask(1u64 << site::INDEX_SCAN);
            let without = self.sut.query(&op.sql);
            verif::set_skip_mask(0);
            cx.log.str(with.class());
            cx.eval("c33.index_probe");
            return match (&with, &without) {
                (Out::Rows(a), Out::Rows(b)) => {
                    if !a.is_empty() {
                        cx.reach("probe_nonempty");
                    }
                    if bag(a) != bag(b) {
                        cx.violation("c33.index_probe", format!("{} : with index scans {:?}, without {:?}", op.sql, bag(a), bag(b)))
                    } else {
                        Step::Continue
                    }
                }
                (Out::Err(_), Out::Err(_)) => Step::Continue,
                (x, y) => cx.violation("c33.index_probe", format!("{} : with index scans {}, without {}", op.sql, x.brief(), y.brief())),
            };
        }
        let t = op.table.clone().unwrap_or_default();
        let pre = self.stored(&t);
        let out = self.sut.exec(&op.sql);
        cx.log.str(out.class());
        cx.sig.str(out.class());
        if let Out::Panic(p) = &out {
            return cx.violation("c33.queryable", format!("{} panicked: {}", op.sql, p));
        }
        let ok = out.is_ok();
        if ok {
            cx.state_changes += 1;
        }
        match &op.kind {
            Kind::CreateTable => {
                let def = op.def.clone().unwrap_or_default();
                if ok {
                    if self.tabs.contains_key(&t) {
                        return cx.violation("c33.listing", format!("{} succeeded although table {} exists", op.sql, t));
                    }
                    self.tabs.insert(t.clone(), def.cols.iter().map(|c| MCol { name: up(&c.name), ty: c.ty.clone() }).collect());
                    cx.reach("table_created");
                    // a (re-)created table starts empty
                    cx.eval("c33.recreated_empty");
                    if let Some((_, rows)) = self.stored(&t) {
                        if !rows.is_empty() {
                            return cx.violation("c33.recreated_empty", format!("{} : the new table already holds {} rows", op.sql, rows.len()));
                        }
                    }
                } else if !self.tabs.contains_key(&t) {
                    cx.eval("c33.recreate");
                    return cx.violation("c33.recreate", format!("{} refused although no table {} exists: {}", op.sql, t, out.brief()));
                }
            }
            Kind::DropTable if ok => {
                self.tabs.remove(&t);
                self.idx.retain(|_, d| d.table != t);
                self.cons.retain(|(tt, _)| *tt != t);
                cx.reach("table_dropped");
            }
            Kind::CreateIndex if ok => {
                if let Some(ix) = &op.idx {
                    let d = IndexDef { name: up(&ix.name), table: up(&ix.table), unique: ix.unique, cols: ix.cols.iter().map(|(c, p, d)| (up(c), *p, *d)).collect() };
                    self.idx.insert(d.name.clone(), d);
                    cx.reach("index_created");
                }
            }
            Kind::DropIndex if ok => {
                if let Some(n) = &op.name {
                    self.idx.remove(n);
                }
            }
            Kind::Alter if ok => {
                let code = op.name.clone().unwrap_or_default();
                let parts: Vec<&str> = code.split(':').collect();
                let cols = self.tabs.entry(t.clone()).or_default();
                let before: Vec<String> = cols.iter().map(|c| c.name.clone()).collect();
                let mut retained: Vec<(String, String)> = before.iter().map(|c| (c.clone(), c.clone())).collect();
                let mut new_name = t.clone();
                match parts.as_slice() {
                    ["add", c, ty] => cols.push(MCol { name: c.to_string(), ty: if *ty == "int" { Ty::Int } else { Ty::Str(8) } }),
                    ["drop", c] => {
                        cols.retain(|m| m.name != *c);
                        retained.retain(|(a, _)| a != c);
                    }
                    ["chg", a, b] => {
                        for m in cols.iter_mut() {
                            if m.name == *a {
                                m.name = b.to_string();
                            }
                        }
                        for r in retained.iter_mut() {
                            if r.0 == *a {
                                r.1 = b.to_string();
                            }
                        }
                        for d in self.idx.values_mut() {
                            if d.table == t {
                                for c in d.cols.iter_mut() {
                                    if c.0 == *a {
                                        c.0 = b.to_string();
                                    }
                                }
                            }
                        }
                    }
                    ["rename", to] => {
                        if self.tabs.contains_key(*to) && *to != t {
                            return cx.violation("c33.listing", format!("{} succeeded although table {} exists", op.sql, to));
                        }
                        let c = self.tabs.remove(&t).unwrap_or_default();
                        self.tabs.insert(to.to_string(), c);
                        for d in self.idx.values_mut() {
                            if d.table == t {
                                d.table = to.to_string();
                            }
                        }
                        let moved: Vec<(String, String)> = self.cons.iter().filter(|(tt, _)| *tt == t).cloned().collect();
                        for m in moved {
                            self.cons.remove(&m);
                            self.cons.insert((to.to_string(), m.1));
                        }
                        new_name = to.to_string();
                    }
                    ["addc", n] => {
                        self.cons.insert((t.clone(), n.to_string()));
                    }
                    ["dropc", n] => {
                        self.cons.remove(&(t.clone(), n.to_string()));
                    }
                    _ => {}
                }
                cx.reach(&format!("alter_{}", parts.first().copied().unwrap_or("")));
                // data of retained columns is unchanged
                if let (Some(pre), Some(post)) = (&pre, self.stored(&new_name)) {
                    let (from, to): (Vec<String>, Vec<String>) = retained.into_iter().unzip();
                    if let (Some(a), Some(b)) = (Self::projection(pre, &from), Self::projection(&post, &to)) {
                        cx.eval("c33.retained_data");
                        if a != b {
                            return cx.violation("c33.retained_data", format!("{} : retained columns {:?} held {:?} before and {:?} after", op.sql, from, a, b));
                        }
                    }
                }
            }
            _ => {}
        }
        match self.consistency(cx) {
            Some((o, d)) => cx.violation(&o, format!("after {} ({}): {}", op.sql, out.brief(), d)),
            None => Step::Continue,
        }
    }
}
