//! Observable database state, read through public API only.

use crate::sut::{bag, canon, canon_row, Out, Sut};
use simcore::Fnv;
use std::collections::BTreeMap;
use vibesql_types::SqlValue;

#[derive(Clone, Debug, PartialEq, Eq, Default)]
pub struct TableSnap {
    /// (name, type, nullable)
    pub cols: Vec<(String, String, bool)>,
    /// multiset of rows (sorted canonical strings)
    pub rows: Vec<String>,
}

#[derive(Clone, Debug, PartialEq, Eq, Default)]
pub struct Snap {
    pub tables: BTreeMap<String, TableSnap>,
    pub indexes: Vec<String>,
    pub views: Vec<String>,
    pub triggers: Vec<String>,
    /// query text -> result (sorted multiset) or error class; index-driven reads
    pub probes: BTreeMap<String, Vec<String>>,
}

/// Raw rows of a table in storage order (None if the table does not exist).
pub fn table_rows(sut: &Sut, table: &str) -> Option<Vec<Vec<SqlValue>>> {
    sut.db.get_table(table).map(|t| t.scan().iter().map(|r| r.values.clone()).collect())
}

pub fn table_snap(sut: &Sut, name: &str) -> Option<TableSnap> {
    let t = sut.db.get_table(name)?;
    let cols = t
        .schema
        .columns
        .iter()
        .map(|c| (c.name.clone(), format!("{:?}", c.data_type), c.nullable))
        .collect();
    let rows: Vec<Vec<SqlValue>> = t.scan().iter().map(|r| r.values.clone()).collect();
    Some(TableSnap { cols, rows: bag(&rows) })
}

fn unqualified(n: &str) -> &str {
    n.rsplit('.').next().unwrap_or(n)
}

/// Full observable snapshot. `with_probes`: also run index-driven reads for every table that has a
/// user index (equality on each distinct value (capped), one range, one ORDER BY per column).
pub fn snapshot(sut: &Sut, with_probes: bool) -> Snap {
    let mut s = Snap::default();
    let mut names = sut.db.list_tables();
    names.sort();
    for n in &names {
        if let Some(ts) = table_snap(sut, n) {
            s.tables.insert(n.clone(), ts);
        }
    }
    s.indexes = sut.db.list_indexes();
    s.indexes.sort();
    s.views = sut.db.catalog.list_views();
    s.views.sort();
    s.triggers = sut.db.catalog.list_triggers();
    s.triggers.sort();
    if with_probes {
        for n in &names {
            let tn = unqualified(n).to_string();
            if sut.db.list_indexes_for_table(&tn).is_empty() && sut.db.list_indexes_for_table(n).is_empty() {
                continue;
            }
            let t = match sut.db.get_table(n) {
                Some(t) => t,
                None => continue,
            };
            for (ci, c) in t.schema.columns.iter().enumerate() {
                let mut vals: Vec<&SqlValue> = t.scan().iter().filter_map(|r| r.values.get(ci)).filter(|v| !v.is_null()).collect();
                vals.sort_by_key(|v| canon(v));
                vals.dedup_by_key(|v| canon(v));
                let lits: Vec<String> = vals.iter().filter_map(|v| lit_of(v)).collect();
                for l in lits.iter().take(6) {
                    let q = format!("SELECT * FROM {} WHERE {} = {}", tn, c.name, l);
                    s.probes.insert(q.clone(), probe_result(sut, &q));
                }
                if let Some(l) = lits.get(lits.len() / 2) {
                    let q = format!("SELECT * FROM {} WHERE {} >= {}", tn, c.name, l);
                    s.probes.insert(q.clone(), probe_result(sut, &q));
                    let q = format!("SELECT * FROM {} WHERE {} < {}", tn, c.name, l);
                    s.probes.insert(q.clone(), probe_result(sut, &q));
                }
                let q = format!("SELECT {} FROM {} ORDER BY {}", c.name, tn, c.name);
                s.probes.insert(q.clone(), probe_seq(sut, &q));
            }
        }
    }
    s
}

pub fn lit_of(v: &SqlValue) -> Option<String> {
    match v {
        SqlValue::Integer(i) | SqlValue::Bigint(i) => Some(i.to_string()),
        SqlValue::Smallint(i) => Some(i.to_string()),
        SqlValue::Varchar(s) | SqlValue::Character(s) => Some(format!("'{}'", s.replace('\'', "''"))),
        _ => None,
    }
}

pub fn probe_result(sut: &Sut, q: &str) -> Vec<String> {
    match sut.query(q) {
        Out::Rows(r) => bag(&r),
        Out::Err(_) => vec!["<err>".into()],
        Out::Panic(p) => vec![format!("<panic {}>", p)],
        _ => vec!["<?>".into()],
    }
}

pub fn probe_seq(sut: &Sut, q: &str) -> Vec<String> {
    match sut.query(q) {
        Out::Rows(r) => r.iter().map(|x| canon_row(x)).collect(),
        Out::Err(_) => vec!["<err>".into()],
        Out::Panic(p) => vec![format!("<panic {}>", p)],
        _ => vec!["<?>".into()],
    }
}

impl Snap {
    pub fn digest(&self) -> u64 {
        let mut h = Fnv::new();
        for (n, t) in &self.tables {
            h.str(n);
            for (c, ty, nl) in &t.cols {
                h.str(c).str(ty).u64(*nl as u64);
            }
            for r in &t.rows {
                h.str(r);
            }
        }
        for i in &self.indexes {
            h.str(i);
        }
        for v in &self.views {
            h.str(v);
        }
        for v in &self.triggers {
            h.str(v);
        }
        for (q, r) in &self.probes {
            h.str(q);
            for x in r {
                h.str(x);
            }
        }
        h.get()
    }

    /// Human-readable first difference (for violation details).
    pub fn diff(&self, other: &Snap) -> String {
        for (n, t) in &self.tables {
            match other.tables.get(n) {
                None => return format!("table {} present before, missing after", n),
                Some(o) => {
                    if t.cols != o.cols {
                        return format!("table {} columns differ: {:?} vs {:?}", n, t.cols, o.cols);
                    }
                    if t.rows != o.rows {
                        if t.rows.len() + o.rows.len() > 8 {
                            // long tables: show only the rows that are not common to both sides
                            let mut only_a: Vec<&String> = Vec::new();
                            let mut rest: Vec<&String> = o.rows.iter().collect();
                            for r in &t.rows {
                                match rest.iter().position(|x| *x == r) {
                                    Some(p) => {
                                        rest.remove(p);
                                    }
                                    None => only_a.push(r),
                                }
                            }
                            return format!("table {} rows differ ({} vs {} rows): only before {:?} only after {:?}", n, t.rows.len(), o.rows.len(), only_a, rest);
                        }
                        return format!("table {} rows differ: before {:?} after {:?}", n, t.rows, o.rows);
                    }
                }
            }
        }
        for n in other.tables.keys() {
            if !self.tables.contains_key(n) {
                return format!("table {} missing before, present after", n);
            }
        }
        if self.indexes != other.indexes {
            return format!("index list differs: {:?} vs {:?}", self.indexes, other.indexes);
        }
        if self.views != other.views {
            return format!("view list differs: {:?} vs {:?}", self.views, other.views);
        }
        if self.triggers != other.triggers {
            return format!("trigger list differs: {:?} vs {:?}", self.triggers, other.triggers);
        }
        for (q, r) in &self.probes {
            match other.probes.get(q) {
                Some(o) if o == r => {}
                Some(o) => return format!("index-driven read differs: {} : {:?} vs {:?}", q, r, o),
                None => return format!("index-driven read {} not repeatable", q),
            }
        }
        for q in other.probes.keys() {
            if !self.probes.contains_key(q) {
                return format!("index-driven read {} only after", q);
            }
        }
        String::from("<equal>")
    }
}
