//! Explicit, serialisable operations. A recorded history is a `Vec<Op>`; replay and minimisation
//! work on that list and never regenerate from the seed.

use serde::{Deserialize, Serialize};

#[derive(Clone, Debug, PartialEq, Eq, Serialize, Deserialize)]
pub enum Ty {
    Int,
    Str(u32),
}

#[derive(Clone, Debug, PartialEq, Serialize, Deserialize)]
pub enum Lit {
    Null,
    Int(i64),
    Str(String),
    /// rendered verbatim (e.g. `5.0`, `5e0`) — numeric literal of another type
    Raw(String),
}

impl Lit {
    pub fn sql(&self) -> String {
        match self {
            Lit::Null => "NULL".into(),
            Lit::Int(i) => i.to_string(),
            Lit::Str(s) => format!("'{}'", s.replace('\'', "''")),
            Lit::Raw(s) => s.clone(),
        }
    }
}

#[derive(Clone, Debug, PartialEq, Serialize, Deserialize)]
pub struct ColDef {
    pub name: String,
    pub ty: Ty,
    pub not_null: bool,
}

#[derive(Clone, Copy, Debug, PartialEq, Eq, Serialize, Deserialize)]
pub enum Cmp {
    Eq,
    Ne,
    Lt,
    Le,
    Gt,
    Ge,
}
impl Cmp {
    pub fn sql(&self) -> &'static str {
        match self {
            Cmp::Eq => "=",
            Cmp::Ne => "<>",
            Cmp::Lt => "<",
            Cmp::Le => "<=",
            Cmp::Gt => ">",
            Cmp::Ge => ">=",
        }
    }
    pub fn eval(&self, a: i64, b: i64) -> bool {
        match self {
            Cmp::Eq => a == b,
            Cmp::Ne => a != b,
            Cmp::Lt => a < b,
            Cmp::Le => a <= b,
            Cmp::Gt => a > b,
            Cmp::Ge => a >= b,
        }
    }
    pub const ALL: [Cmp; 6] = [Cmp::Eq, Cmp::Ne, Cmp::Lt, Cmp::Le, Cmp::Gt, Cmp::Ge];
}

/// CHECK constraints the harness can evaluate itself (integer columns only).
#[derive(Clone, Debug, PartialEq, Serialize, Deserialize)]
pub enum Check {
    ColLit { col: usize, op: Cmp, lit: i64 },
    ColCol { a: usize, op: Cmp, b: usize },
}

#[derive(Clone, Copy, Debug, PartialEq, Eq, Serialize, Deserialize)]
pub enum FkAction {
    NoAction,
    Restrict,
    Cascade,
    SetNull,
}
impl FkAction {
    pub fn sql(&self) -> &'static str {
        match self {
            FkAction::NoAction => "NO ACTION",
            FkAction::Restrict => "RESTRICT",
            FkAction::Cascade => "CASCADE",
            FkAction::SetNull => "SET NULL",
        }
    }
}

#[derive(Clone, Debug, PartialEq, Serialize, Deserialize)]
pub struct Fk {
    pub col: usize,
    pub parent: String,
    pub parent_col: String,
    pub on_delete: Option<FkAction>,
    pub on_update: Option<FkAction>,
}

#[derive(Clone, Debug, PartialEq, Serialize, Deserialize, Default)]
pub struct TableDef {
    pub name: String,
    pub cols: Vec<ColDef>,
    pub pk: Vec<usize>,
    pub uniques: Vec<Vec<usize>>,
    pub checks: Vec<Check>,
    pub fks: Vec<Fk>,
}

impl TableDef {
    pub fn col_index(&self, name: &str) -> Option<usize> {
        self.cols.iter().position(|c| c.name.eq_ignore_ascii_case(name))
    }
    pub fn check_sql(&self, c: &Check) -> String {
        match c {
            Check::ColLit { col, op, lit } => format!("{} {} {}", self.cols[*col].name, op.sql(), lit),
            Check::ColCol { a, op, b } => format!("{} {} {}", self.cols[*a].name, op.sql(), self.cols[*b].name),
        }
    }
    pub fn create_sql(&self) -> String {
        let mut parts: Vec<String> = Vec::new();
        for (i, c) in self.cols.iter().enumerate() {
            let ty = match &c.ty {
                Ty::Int => "INTEGER".to_string(),
                Ty::Str(n) => format!("VARCHAR({})", n),
            };
            let mut s = format!("{} {}", c.name, ty);
            if self.pk.len() == 1 && self.pk[0] == i {
                s.push_str(" PRIMARY KEY");
            } else if c.not_null {
                s.push_str(" NOT NULL");
            }
            parts.push(s);
        }
        if self.pk.len() > 1 {
            let names: Vec<&str> = self.pk.iter().map(|i| self.cols[*i].name.as_str()).collect();
            parts.push(format!("PRIMARY KEY ({})", names.join(", ")));
        }
        for u in &self.uniques {
            let names: Vec<&str> = u.iter().map(|i| self.cols[*i].name.as_str()).collect();
            parts.push(format!("UNIQUE ({})", names.join(", ")));
        }
        for c in &self.checks {
            parts.push(format!("CHECK ({})", self.check_sql(c)));
        }
        for f in &self.fks {
            let mut s = format!(
                "FOREIGN KEY ({}) REFERENCES {}({})",
                self.cols[f.col].name, f.parent, f.parent_col
            );
            if let Some(a) = f.on_delete {
                s.push_str(&format!(" ON DELETE {}", a.sql()));
            }
            if let Some(a) = f.on_update {
                s.push_str(&format!(" ON UPDATE {}", a.sql()));
            }
            parts.push(s);
        }
        format!("CREATE TABLE {} ({})", self.name, parts.join(", "))
    }
}

#[derive(Clone, Debug, PartialEq, Serialize, Deserialize)]
pub struct IndexDef {
    pub name: String,
    pub table: String,
    pub unique: bool,
    /// (column, prefix length, descending)
    pub cols: Vec<(String, Option<u32>, bool)>,
}
impl IndexDef {
    pub fn create_sql(&self) -> String {
        let cols: Vec<String> = self
            .cols
            .iter()
            .map(|(c, p, d)| {
                let mut s = c.clone();
                if let Some(p) = p {
                    s.push_str(&format!("({})", p));
                }
                if *d {
                    s.push_str(" DESC");
                }
                s
            })
            .collect();
        format!(
            "CREATE {}INDEX {} ON {} ({})",
            if self.unique { "UNIQUE " } else { "" },
            self.name,
            self.table,
            cols.join(", ")
        )
    }
}

#[derive(Clone, Copy, Debug, PartialEq, Eq, Serialize, Deserialize)]
pub enum RestartFmt {
    Binary,
    Compressed,
    Json,
    SqlDump,
}

#[derive(Clone, Debug, PartialEq, Serialize, Deserialize)]
pub enum Kind {
    CreateTable,
    DropTable,
    CreateIndex,
    DropIndex,
    Insert,
    InsertSelect,
    Update,
    Delete,
    Truncate,
    Begin,
    Commit,
    Rollback,
    Savepoint,
    RollbackTo,
    Release,
    Alter,
    CreateView,
    DropView,
    CreateTrigger,
    DropTrigger,
    Analyze,
    Reindex,
    Restart(RestartFmt),
    SetRole,
    Security,
    /// read-only query whose result feeds a twin/probe oracle
    Probe,
    /// hostile statement (fault): must fail or succeed without panicking
    Hostile,
    Other,
}

impl Kind {
    pub fn name(&self) -> String {
        match self {
            Kind::Restart(f) => format!("Restart{:?}", f),
            k => format!("{:?}", k),
        }
    }
}

#[derive(Clone, Debug, PartialEq, Serialize, Deserialize)]
pub struct Op {
    pub kind: Kind,
    /// the statement text executed verbatim (empty for non-SQL ops such as Restart / SetRole)
    pub sql: String,
    #[serde(default, skip_serializing_if = "Option::is_none")]
    pub table: Option<String>,
    /// WHERE predicate text of UPDATE/DELETE (None = no WHERE)
    #[serde(default, skip_serializing_if = "Option::is_none")]
    pub pred: Option<String>,
    /// UPDATE: (column, expression text)
    #[serde(default, skip_serializing_if = "Vec::is_empty")]
    pub sets: Vec<(String, String)>,
    #[serde(default, skip_serializing_if = "Option::is_none")]
    pub def: Option<TableDef>,
    #[serde(default, skip_serializing_if = "Option::is_none")]
    pub idx: Option<IndexDef>,
    /// INSERT VALUES: column list (empty = all) and literal rows
    #[serde(default, skip_serializing_if = "Vec::is_empty")]
    pub cols: Vec<String>,
    #[serde(default, skip_serializing_if = "Vec::is_empty")]
    pub rows: Vec<Vec<Lit>>,
    /// savepoint / index / view / trigger / role name
    #[serde(default, skip_serializing_if = "Option::is_none")]
    pub name: Option<String>,
    /// fault annotation: what the generator intended (bad row at k/n, failing trigger, ...)
    #[serde(default, skip_serializing_if = "String::is_empty")]
    pub fault: String,
}

impl Op {
    pub fn new(kind: Kind, sql: String) -> Op {
        Op {
            kind,
            sql,
            table: None,
            pred: None,
            sets: vec![],
            def: None,
            idx: None,
            cols: vec![],
            rows: vec![],
            name: None,
            fault: String::new(),
        }
    }
    pub fn table(mut self, t: &str) -> Op {
        self.table = Some(t.to_string());
        self
    }
    pub fn named(mut self, n: &str) -> Op {
        self.name = Some(n.to_string());
        self
    }
    pub fn fault(mut self, f: &str) -> Op {
        self.fault = f.to_string();
        self
    }

    pub fn insert(table: &str, cols: &[String], rows: Vec<Vec<Lit>>) -> Op {
        let collist = if cols.is_empty() { String::new() } else { format!(" ({})", cols.join(", ")) };
        let vals: Vec<String> = rows
            .iter()
            .map(|r| format!("({})", r.iter().map(|l| l.sql()).collect::<Vec<_>>().join(", ")))
            .collect();
        let sql = format!("INSERT INTO {}{} VALUES {}", table, collist, vals.join(", "));
        let mut op = Op::new(Kind::Insert, sql).table(table);
        op.cols = cols.to_vec();
        op.rows = rows;
        op
    }
    pub fn delete(table: &str, pred: Option<String>) -> Op {
        let sql = match &pred {
            Some(p) => format!("DELETE FROM {} WHERE {}", table, p),
            None => format!("DELETE FROM {}", table),
        };
        let mut op = Op::new(Kind::Delete, sql).table(table);
        op.pred = pred;
        op
    }
    pub fn update(table: &str, sets: Vec<(String, String)>, pred: Option<String>) -> Op {
        let s: Vec<String> = sets.iter().map(|(c, e)| format!("{} = {}", c, e)).collect();
        let sql = match &pred {
            Some(p) => format!("UPDATE {} SET {} WHERE {}", table, s.join(", "), p),
            None => format!("UPDATE {} SET {}", table, s.join(", ")),
        };
        let mut op = Op::new(Kind::Update, sql).table(table);
        op.sets = sets;
        op.pred = pred;
        op
    }
    pub fn create_table(def: TableDef) -> Op {
        let mut op = Op::new(Kind::CreateTable, def.create_sql()).table(&def.name.clone());
        op.def = Some(def);
        op
    }
    pub fn create_index(idx: IndexDef) -> Op {
        let mut op = Op::new(Kind::CreateIndex, idx.create_sql()).table(&idx.table.clone()).named(&idx.name.clone());
        op.idx = Some(idx);
        op
    }
}
