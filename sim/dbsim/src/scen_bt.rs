//! btsim: the disk-backed B+ tree (`BTreeIndex` + `PageManager`, both real) over the simulated disk.
//!
//! Reference model: `BTreeMap<Key, Vec<RowId>>`. After every mutating operation an independent parser
//! reads the *persisted bytes* back from the simulated disk and checks the tree structure: keys
//! strictly sorted in every node, separator invariants, every leaf at depth = recorded height, the
//! leaf chain visits every leaf exactly once in key order and ends with 0, no page reachable twice,
//! and the concatenated leaf entries equal the model.

use crate::driver::{Ctx, Scenario, Step};
use crate::gen::Swarm;
use crate::ops::*;
use crate::simdisk::SimDisk;
use simcore::runner::catch;
use simcore::Rng;
use std::collections::{BTreeMap, BTreeSet};
use std::sync::Arc;
use vibesql_storage::btree::BTreeIndex;
use vibesql_storage::page::{PageManager, PAGE_SIZE};
use vibesql_storage::persistence::binary::value::read_sql_value;
use vibesql_types::{DataType, SqlValue};

type Key = Vec<SqlValue>;

pub struct Bt {
    disk: SimDisk,
    pm: Option<Arc<PageManager>>,
    tree: Option<BTreeIndex>,
    model: BTreeMap<Key, Vec<usize>>,
    sw: Swarm,
    schema_kind: u64,
    started: bool,
    next_row: usize,
    phase: u64,
    phase_left: usize,
    ops_done: usize,
    /// heavy-duplicates flavour: a handful of integer keys shared by hundreds of row ids
    heavy: bool,
}

const FILE: &str = "idx/bt.idx";

fn schema_of(kind: u64) -> Vec<DataType> {
    match kind {
        0 => vec![DataType::Integer],
        1 => vec![DataType::Varchar { max_length: Some(50) }],
        2 => vec![DataType::Varchar { max_length: Some(200) }],
        _ => vec![DataType::Integer, DataType::Varchar { max_length: Some(20) }],
    }
}

fn lit_to_val(l: &Lit) -> SqlValue {
    match l {
        Lit::Null => SqlValue::Null,
        Lit::Int(i) => SqlValue::Integer(*i),
        Lit::Str(s) => SqlValue::Varchar(s.clone()),
        Lit::Raw(s) => SqlValue::Varchar(s.clone()),
    }
}
fn key_of(l: &[Lit]) -> Key {
    l.iter().map(lit_to_val).collect()
}

// ------------------------------------------------------------------ independent page parser
struct PNode {
    leaf: bool,
    keys: Vec<Key>,
    children: Vec<u64>,
    rows: Vec<Vec<usize>>,
    next: u64,
}

fn parse_node(bytes: &[u8], page: u64) -> Result<PNode, String> {
    let off = page as usize * PAGE_SIZE;
    if bytes.len() < off + PAGE_SIZE {
        return Err(format!("page {} beyond end of file ({} bytes)", page, bytes.len()));
    }
    let p = &bytes[off..off + PAGE_SIZE];
    let mut c = std::io::Cursor::new(p);
    let rd = |c: &mut std::io::Cursor<&[u8]>, n: usize| -> Result<Vec<u8>, String> {
        let pos = c.position() as usize;
        if pos + n > PAGE_SIZE {
            return Err(format!("page {}: read past page end", page));
        }
        c.set_position((pos + n) as u64);
        Ok(p[pos..pos + n].to_vec())
    };
    let ty = rd(&mut c, 1)?[0];
    let n = u16::from_le_bytes(rd(&mut c, 2)?.try_into().unwrap()) as usize;
    let mut node = PNode { leaf: ty == 2, keys: vec![], children: vec![], rows: vec![], next: 0 };
    if ty != 1 && ty != 2 {
        return Err(format!("page {}: unknown page type {}", page, ty));
    }
    for _ in 0..n {
        let klen = u16::from_le_bytes(rd(&mut c, 2)?.try_into().unwrap()) as usize;
        let mut key = Vec::new();
        for _ in 0..klen {
            key.push(read_sql_value(&mut c).map_err(|e| format!("page {}: bad key value: {}", page, e))?);
        }
        node.keys.push(key);
        if node.leaf {
            // varint count
            let mut v = 0usize;
            let mut shift = 0;
            loop {
                let b = rd(&mut c, 1)?[0];
                v |= ((b & 0x7f) as usize) << shift;
                if b & 0x80 == 0 {
                    break;
                }
                shift += 7;
                if shift > 56 {
                    return Err(format!("page {}: varint overflow", page));
                }
            }
            let mut ids = Vec::new();
            for _ in 0..v {
                ids.push(u64::from_le_bytes(rd(&mut c, 8)?.try_into().unwrap()) as usize);
            }
            node.rows.push(ids);
        }
    }
    if node.leaf {
        node.next = u64::from_le_bytes(rd(&mut c, 8)?.try_into().unwrap());
    } else {
        for _ in 0..=n {
            node.children.push(u64::from_le_bytes(rd(&mut c, 8)?.try_into().unwrap()));
        }
    }
    Ok(node)
}

/// Walk the persisted tree; returns the leaf entries in chain order, or a description of the defect.
fn check_structure(bytes: &[u8]) -> Result<(Vec<(Key, Vec<usize>)>, usize, usize), String> {
    if bytes.len() < PAGE_SIZE {
        return Err("file shorter than the metadata page".into());
    }
    let root = u64::from_le_bytes(bytes[0..8].try_into().unwrap());
    let height = u16::from_le_bytes(bytes[10..12].try_into().unwrap()) as usize;
    if root == 0 {
        return Err("root page id is 0".into());
    }
    let mut seen: BTreeSet<u64> = BTreeSet::new();
    let mut leaves_in_tree_order: Vec<u64> = Vec::new();
    // (page, depth, lower bound exclusive?, bounds)
    fn walk(bytes: &[u8], page: u64, depth: usize, height: usize, lo: Option<&Key>, hi: Option<&Key>, seen: &mut BTreeSet<u64>, leaves: &mut Vec<u64>) -> Result<(), String> {
        if !seen.insert(page) {
            return Err(format!("page {} reachable twice", page));
        }
        let n = parse_node(bytes, page)?;
        for w in n.keys.windows(2) {
            if w[0].cmp(&w[1]) != std::cmp::Ordering::Less {
                return Err(format!("page {}: keys not strictly sorted: {:?} >= {:?}", page, w[0], w[1]));
            }
        }
        if let (Some(lo), Some(first)) = (lo, n.keys.first()) {
            if first.cmp(lo) == std::cmp::Ordering::Less {
                return Err(format!("page {}: key {:?} below the separator {:?} of its parent", page, first, lo));
            }
        }
        if let (Some(hi), Some(last)) = (hi, n.keys.last()) {
            if last.cmp(hi) != std::cmp::Ordering::Less {
                return Err(format!("page {}: key {:?} not below the separator {:?} of its parent", page, last, hi));
            }
        }
        if n.leaf {
            if depth != height {
                return Err(format!("leaf page {} at depth {} but recorded height is {}", page, depth, height));
            }
            leaves.push(page);
            return Ok(());
        }
        if depth >= height {
            return Err(format!("internal page {} at depth {} >= height {}", page, depth, height));
        }
        if n.children.len() != n.keys.len() + 1 {
            return Err(format!("page {}: {} keys but {} children", page, n.keys.len(), n.children.len()));
        }
        for (i, ch) in n.children.iter().enumerate() {
            if *ch == 0 {
                return Err(format!("page {}: child {} is the NULL page", page, i));
            }
            let clo = if i == 0 { lo } else { Some(&n.keys[i - 1]) };
            let chi = if i == n.keys.len() { hi } else { Some(&n.keys[i]) };
            walk(bytes, *ch, depth + 1, height, clo, chi, seen, leaves)?;
        }
        Ok(())
    }
    walk(bytes, root, 1, height, None, None, &mut seen, &mut leaves_in_tree_order)?;
    // leaf chain
    let mut entries = Vec::new();
    let mut chain: Vec<u64> = Vec::new();
    let mut cur = *leaves_in_tree_order.first().ok_or("no leaf")?;
    let mut guard = 0;
    loop {
        guard += 1;
        if guard > 100000 {
            return Err("leaf chain does not terminate".into());
        }
        chain.push(cur);
        let n = parse_node(bytes, cur)?;
        if !n.leaf {
            return Err(format!("leaf chain reaches non-leaf page {}", cur));
        }
        for (k, r) in n.keys.into_iter().zip(n.rows.into_iter()) {
            if r.is_empty() {
                return Err(format!("leaf page {}: key {:?} with an empty row-id list", cur, k));
            }
            entries.push((k, r));
        }
        if n.next == 0 {
            break;
        }
        cur = n.next;
    }
    if chain != leaves_in_tree_order {
        return Err(format!("leaf chain {:?} differs from the leaves in tree order {:?}", chain, leaves_in_tree_order));
    }
    for w in entries.windows(2) {
        if w[0].0.cmp(&w[1].0) != std::cmp::Ordering::Less {
            return Err(format!("leaf chain not in key order: {:?} then {:?}", w[0].0, w[1].0));
        }
    }
    Ok((entries, height, seen.len()))
}

impl Bt {
    fn gen_key(&self, rng: &mut Rng) -> Vec<Lit> {
        // bias to keys present in the model
        if !self.model.is_empty() && rng.chance(1, 2) {
            let i = rng.usize(self.model.len());
            let k = self.model.keys().nth(i).unwrap();
            return k
                .iter()
                .map(|v| match v {
                    SqlValue::Integer(i) => Lit::Int(*i),
                    SqlValue::Varchar(s) => Lit::Str(s.clone()),
                    _ => Lit::Null,
                })
                .collect();
        }
        let dom = self.sw.domain.max(4) * 8;
        let int = |rng: &mut Rng| Lit::Int(rng.range(-dom / 4, dom));
        let strv = |rng: &mut Rng, maxlen: usize| {
            let n = rng.usize(maxlen.min(12) + 1);
            let alphabet = ["a", "b", "c", "ab", "z", "é", "0", " "];
            let mut s = String::new();
            for _ in 0..n {
                let piece: &&str = rng.pick(&alphabet);
                s.push_str(piece);
            }
            if rng.chance(1, 20) {
                s = "x".repeat(maxlen);
            }
            Lit::Str(s.chars().take(maxlen).collect())
        };
        let null = |rng: &mut Rng, l: Lit| if rng.chance(self.sw.null_pct.min(20), 100) { Lit::Null } else { l };
        match self.schema_kind {
            0 => {
                let v = int(rng);
                vec![null(rng, v)]
            }
            1 => {
                let v = strv(rng, 50);
                vec![null(rng, v)]
            }
            2 => {
                let v = strv(rng, 200);
                vec![null(rng, v)]
            }
            _ => {
                let a = int(rng);
                let a = null(rng, a);
                let b = strv(rng, 20);
                let b = null(rng, b);
                vec![a, b]
            }
        }
    }

    fn mk(name: &str, keys: Vec<Vec<Lit>>, extra: &str) -> Op {
        let text = format!("bt.{} {} {}", name, keys.iter().map(|k| format!("[{}]", k.iter().map(|l| l.sql()).collect::<Vec<_>>().join(","))).collect::<Vec<_>>().join(" "), extra);
        let mut op = Op::new(Kind::Other, text);
        op.name = Some(name.to_string());
        op.rows = keys;
        op.pred = Some(extra.to_string());
        op
    }

    fn verify_structure(&self, cx: &mut Ctx, after: &str) -> Option<Step> {
        let bytes = self.disk.bytes(FILE)?;
        cx.eval("c17.structure");
        match check_structure(&bytes) {
            Err(e) => Some(cx.violation("c17.structure", format!("after {}: persisted tree is malformed: {}", after, e))),
            Ok((entries, height, pages)) => {
                if height >= 2 {
                    cx.reach("height_ge_2");
                }
                if height >= 3 {
                    cx.reach("height_ge_3");
                }
                cx.rep.add("pages_walked", pages as u64);
                let model: Vec<(Key, Vec<usize>)> = self.model.iter().map(|(k, v)| (k.clone(), v.clone())).collect();
                if entries != model {
                    let first = entries.iter().zip(model.iter()).position(|(a, b)| a != b).unwrap_or(entries.len().min(model.len()));
                    return Some(cx.violation(
                        "c17.persisted_entries",
                        format!("after {}: persisted leaf entries differ from the model at position {}: disk {:?} model {:?} (disk has {} keys, model {})", after, first, entries.get(first), model.get(first), entries.len(), model.len()),
                    ));
                }
                None
            }
        }
    }
}

impl Scenario for Bt {
    const NAME: &'static str = "bt";

    fn new(_prop: &str, sw: &Swarm) -> Self {
        Bt { disk: SimDisk::new(), pm: None, tree: None, model: BTreeMap::new(), sw: sw.clone(), schema_kind: 0, started: false, next_row: 0, phase: 0, phase_left: 0, ops_done: 0, heavy: sw.big_rows > 0 }
    }

    fn next_op(&mut self, rng: &mut Rng, _cx: &mut Ctx) -> Option<Op> {
        if !self.started {
            // first op: schema + optional bulk load
            let kind = if self.heavy { 0 } else { *rng.pick(&[0u64, 0, 1, 2, 2, 3]) };
            self.schema_kind = kind;
            let bulk = if !self.heavy && rng.chance(1, 3) { rng.usize(120) } else { 0 };
            let mut keys: Vec<Vec<Lit>> = Vec::new();
            for _ in 0..bulk {
                keys.push(self.gen_key(rng));
            }
            return Some(Bt::mk("open", keys, &kind.to_string()));
        }
        if self.phase_left == 0 {
            self.phase = rng.below(4);
            self.phase_left = 5 + rng.usize(60);
        }
        self.phase_left -= 1;
        // phase weights: ramp-up, drain, mixed, read-heavy
        let w: [u32; 6] = match self.phase {
            0 => [20, 1, 2, 2, 1, 2],
            1 => [2, 8, 12, 2, 1, 2],
            2 => [8, 3, 5, 3, 2, 4],
            _ => [2, 1, 1, 6, 4, 8],
        };
        let k = if self.heavy { vec![Lit::Int(rng.range(0, 2 + (self.ops_done as i64 / 300)))] } else { self.gen_key(rng) };
        let w: [u32; 6] = if self.heavy { [30, 0, 3, 1, 1, 1] } else { w };
        Some(match rng.weighted(&w) {
            0 => {
                // duplicates: sometimes several row ids for one key
                self.next_row += 1;
                Bt::mk("insert", vec![k], &self.next_row.to_string())
            }
            1 => Bt::mk("delete", vec![k], ""),
            2 => {
                // a row id that exists for that key (mostly)
                let key = key_of(&k);
                let rid = match self.model.get(&key) {
                    Some(v) if !v.is_empty() && rng.chance(4, 5) => *rng.pick(v),
                    _ => rng.usize(self.next_row + 2),
                };
                Bt::mk("delete_specific", vec![k], &rid.to_string())
            }
            3 => Bt::mk("lookup", vec![k], ""),
            4 => {
                let n = 1 + rng.usize(4);
                let mut ks = vec![k];
                for _ in 1..n {
                    ks.push(self.gen_key(rng));
                }
                Bt::mk("multi_lookup", ks, "")
            }
            _ => {
                let k2 = self.gen_key(rng);
                // flags: has_start has_end incl_start incl_end
                let f = rng.below(16);
                Bt::mk("range", vec![k, k2], &f.to_string())
            }
        })
    }

    fn step(&mut self, op: &Op, cx: &mut Ctx) -> Step {
        let name = op.name.clone().unwrap_or_default();
        let extra = op.pred.clone().unwrap_or_default();
        cx.sig.str(&name);
        cx.rep.count(&format!("btop.{}", name));
        if name == "open" {
            self.started = true;
            self.schema_kind = extra.parse().unwrap_or(0);
            let schema = schema_of(self.schema_kind);
            let pm = match PageManager::new(FILE, self.disk.as_backend()) {
                Ok(p) => Arc::new(p),
                Err(e) => return cx.violation("c17.error", format!("PageManager::new failed: {}", e)),
            };
            self.pm = Some(pm.clone());
            let tree = if op.rows.is_empty() {
                catch(|| BTreeIndex::new(pm.clone(), schema.clone()))
            } else {
                let mut entries: Vec<(Key, usize)> = Vec::new();
                for (i, k) in op.rows.iter().enumerate() {
                    entries.push((key_of(k), i));
                }
                entries.sort_by(|a, b| a.0.cmp(&b.0).then(a.1.cmp(&b.1)));
                for (k, r) in &entries {
                    self.model.entry(k.clone()).or_default().push(*r);
                }
                self.next_row = op.rows.len();
                cx.reach("bulk_load");
                catch(|| BTreeIndex::bulk_load(entries, schema.clone(), pm.clone()))
            };
            match tree {
                Ok(Ok(t)) => {
                    cx.rep.add("degree", t.degree() as u64);
                    self.tree = Some(t);
                    cx.state_changes += 1;
                }
                Ok(Err(e)) => return cx.violation("c17.error", format!("creating the tree failed without an injected fault: {}", e)),
                Err(p) => return cx.violation("c17.panic", format!("creating the tree panicked: {}", p)),
            }
            return self.verify_structure(cx, "open").unwrap_or(Step::Continue);
        }
        let tree = match self.tree.as_mut() {
            Some(t) => t,
            None => return Step::Continue,
        };
        let keys: Vec<Key> = op.rows.iter().map(|k| key_of(k)).collect();
        let k0 = keys.first().cloned().unwrap_or_default();
        self.ops_done += 1;
        let before = self.disk.stats();
        macro_rules! sut {
            ($e:expr) => {
                match catch(|| $e) {
                    Ok(Ok(v)) => v,
                    Ok(Err(e)) => return cx.violation("c17.error", format!("{} {:?} returned an error without an injected fault: {}", name, op.rows, e)),
                    Err(p) => return cx.violation("c17.panic", format!("{} {:?} panicked: {}", name, op.rows, p)),
                }
            };
        }
        let mutating;
        match name.as_str() {
            "insert" => {
                let rid: usize = extra.parse().unwrap_or(0);
                // a key's row-id list must fit into one page; the model refuses what cannot be stored
                let dup = self.model.get(&k0).map(|v| v.len()).unwrap_or(0);
                if dup >= if self.heavy { 400 } else { 40 } {
                    return Step::Continue;
                }
                sut!(tree.insert(k0.clone(), rid));
                self.model.entry(k0).or_default().push(rid);
                cx.state_changes += 1;
                mutating = true;
            }
            "delete" => {
                let got = sut!(tree.delete(&k0));
                let want = self.model.remove(&k0).is_some();
                cx.eval("c17.delete");
                if got != want {
                    return cx.violation("c17.delete", format!("delete({:?}) returned {} but the key was {} in the model", op.rows, got, if want { "present" } else { "absent" }));
                }
                mutating = true;
            }
            "delete_specific" => {
                let rid: usize = extra.parse().unwrap_or(0);
                let got = sut!(tree.delete_specific(&k0, rid));
                let mut want = false;
                if let Some(v) = self.model.get_mut(&k0) {
                    if let Some(p) = v.iter().position(|x| *x == rid) {
                        v.remove(p);
                        want = true;
                    }
                    if v.is_empty() {
                        self.model.remove(&k0);
                    }
                }
                cx.eval("c17.delete_specific");
                if got != want {
                    return cx.violation("c17.delete_specific", format!("delete_specific({:?}, {}) returned {} but the model says {}", op.rows, rid, got, want));
                }
                mutating = true;
            }
            "lookup" => {
                let got = sut!(tree.lookup(&k0));
                let want = self.model.get(&k0).cloned().unwrap_or_default();
                cx.eval("c17.lookup");
                if got != want {
                    return cx.violation("c17.lookup", format!("lookup({:?}) = {:?}, model {:?}", op.rows, got, want));
                }
                mutating = false;
            }
            "multi_lookup" => {
                let got = sut!(tree.multi_lookup(&keys));
                let mut want = Vec::new();
                for k in &keys {
                    want.extend(self.model.get(k).cloned().unwrap_or_default());
                }
                cx.eval("c17.multi_lookup");
                if got != want {
                    return cx.violation("c17.multi_lookup", format!("multi_lookup({:?}) = {:?}, model {:?}", op.rows, got, want));
                }
                mutating = false;
            }
            "range" => {
                let f: u64 = extra.parse().unwrap_or(0);
                let (hs, he, is, ie) = (f & 1 != 0, f & 2 != 0, f & 4 != 0, f & 8 != 0);
                let k1 = keys.get(1).cloned().unwrap_or_default();
                let s = if hs { Some(&k0) } else { None };
                let e = if he { Some(&k1) } else { None };
                let got = sut!(tree.range_scan(s, e, is, ie));
                let mut want = Vec::new();
                for (k, v) in &self.model {
                    if let Some(s) = s {
                        if k.cmp(s) == std::cmp::Ordering::Less || (k.cmp(s) == std::cmp::Ordering::Equal && !is) {
                            continue;
                        }
                    }
                    if let Some(e) = e {
                        if k.cmp(e) == std::cmp::Ordering::Greater || (k.cmp(e) == std::cmp::Ordering::Equal && !ie) {
                            continue;
                        }
                    }
                    want.extend(v.iter().copied());
                }
                cx.eval("c17.range_scan");
                if !want.is_empty() {
                    cx.reach("range_nonempty");
                }
                if got != want {
                    return cx.violation("c17.range_scan", format!("range_scan({:?}, start={}, end={}, incl=({},{})) = {:?}, model {:?}", op.rows, hs, he, is, ie, got, want));
                }
                mutating = false;
            }
            _ => return Step::Continue,
        }
        let after = self.disk.stats();
        cx.rep.add("disk.reads", after.reads - before.reads);
        cx.rep.add("disk.writes", after.writes - before.writes);
        if mutating {
            let h0 = self.tree.as_ref().map(|t| t.height()).unwrap_or(0);
            cx.rep.add(&format!("height_seen.{}", h0.min(4)), 1);
            if let Some(v) = self.verify_structure(cx, &format!("{} {:?} {}", name, op.rows, extra)) {
                return v;
            }
            // the live object and a freshly loaded one must answer alike
            if self.ops_done % 16 == 0 {
                if let Some(pm) = &self.pm {
                    match catch(|| BTreeIndex::load(pm.clone())) {
                        Ok(Ok(loaded)) => {
                            cx.eval("c17.load");
                            let a = catch(|| loaded.range_scan(None, None, true, true));
                            let want: Vec<usize> = self.model.values().flatten().copied().collect();
                            match a {
                                Ok(Ok(got)) if got == want => {}
                                other => return cx.violation("c17.load", format!("BTreeIndex::load on the same pages answers a full scan with {:?}, model {:?}", other.map(|r| r.map_err(|e| e.to_string())), want)),
                            }
                        }
                        Ok(Err(e)) => return cx.violation("c17.error", format!("BTreeIndex::load failed: {}", e)),
                        Err(p) => return cx.violation("c17.panic", format!("BTreeIndex::load panicked: {}", p)),
                    }
                }
            }
        }
        Step::Continue
    }
}
