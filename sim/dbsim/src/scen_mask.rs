//! "Same state, different execution path" scenario (buggify twins).
//!
//! One `Database`; a seeded history builds the state; after every state-changing step a batch of
//! probes is executed several times on that same state, each time under a different configuration of
//! the guarded switches in `vibesql_types::verif`, and (for C05) in several equivalent renderings.
//! All executions of one probe family must return the same multiset (same sequence under a total
//! ORDER BY), or all fail.
//!
//! * C03  columnar aggregate gate on / off (+ the three absolute clauses on the gated path)
//! * C05  all optimisations / none (definitional nested evaluation) / a seeded partial mask, crossed
//!        with the renderings of a semi/anti/inner-join intent
//! * C04  parallel thresholds never / always (x schedules of the deterministic rayon stand-in)

use crate::driver::{Ctx, Scenario, Step};
use crate::gen::*;
use crate::ops::*;
use crate::snapshot::*;
use crate::sut::{bag, seq, Out, Sut};
use crate::world::World;
use simcore::Rng;
use vibesql_types::verif;
use vibesql_types::verif::site;
use vibesql_types::SqlValue;

#[derive(Clone, Copy, PartialEq, Eq, Debug)]
pub enum Mode {
    Columnar,
    Joins,
    Parallel,
    /// C32: a query over a view / CTE vs the same query over the inlined derived table
    Views,
}

pub struct Mask {
    mode: Mode,
    sut: Sut,
    world: World,
    sw: Swarm,
    setup: Vec<Op>,
    pending: Vec<Op>,
    partial_mask: u64,
    /// (Columnar) rows of the floating point table `tf` (0 = no such table in this run)
    float_rows: usize,
}

pub const JOIN_SITES: [u32; 6] = [site::JOIN_REORDER, site::HASH_JOIN, site::SUBQUERY_REWRITE, site::SUBQUERY_TO_JOIN, site::IN_SUBQUERY_INDEX, site::INDEX_SCAN];

fn mask_of(sites: &[u32]) -> u64 {
    sites.iter().fold(0u64, |m, s| m | (1u64 << s))
}

/// One execution configuration.
#[derive(Clone, Debug)]
struct Config {
    name: String,
    mask: u64,
    parallel: Option<usize>,
    schedule: u64,
}

impl Mask {
    fn configs(&self) -> Vec<Config> {
        match self.mode {
            Mode::Columnar => vec![
                Config { name: "columnar".into(), mask: 0, parallel: Some(3), schedule: 0 },
                Config { name: "row".into(), mask: mask_of(&[site::COLUMNAR]), parallel: Some(3), schedule: 0 },
            ],
            Mode::Joins => vec![
                Config { name: "optimised".into(), mask: 0, parallel: Some(3), schedule: 0 },
                Config { name: "definitional".into(), mask: mask_of(&JOIN_SITES), parallel: Some(3), schedule: 0 },
                Config { name: format!("partial{:x}", self.partial_mask), mask: self.partial_mask, parallel: Some(3), schedule: 0 },
            ],
            Mode::Views => vec![Config { name: "default".into(), mask: 0, parallel: Some(3), schedule: 0 }],
            Mode::Parallel => vec![
                Config { name: "never".into(), mask: 0, parallel: Some(3), schedule: 0 },
                Config { name: "always.s1".into(), mask: 0, parallel: Some(0), schedule: 1 },
                Config { name: "always.s2".into(), mask: 0, parallel: Some(0), schedule: 2 },
                Config { name: "always.s3".into(), mask: 0, parallel: Some(0), schedule: 3 },
                Config { name: "thr7.s4".into(), mask: 0, parallel: Some(2), schedule: 4 },
            ],
        }
    }

    fn run_under(&self, c: &Config, sql: &str, base_schedule: u64) -> Out {
        verif::set_skip_mask(c.mask);
        verif::set_parallel_config(c.parallel);
        crate::parhook::set_schedule(simcore::mix(base_schedule, c.schedule));
        let out = self.sut.query(sql);
        verif::set_skip_mask(0);
        verif::set_parallel_config(Some(3));
        out
    }

    // ------------------------------------------------------------ probe generation
    fn columnar_probe(&self, rng: &mut Rng) -> Option<Op> {
        let names = self.world.table_names();
        let def = &self.world.tables[rng.pick(&names)];
        let ints: Vec<&ColDef> = def.cols.iter().filter(|c| c.ty == Ty::Int).collect();
        if ints.is_empty() {
            return None;
        }
        let mut aggs: Vec<String> = Vec::new();
        let n = 1 + rng.usize(3);
        for _ in 0..n {
            let c = &rng.pick(&ints).name;
            // COUNT / MIN / MAX are defined for every column type (strings too)
            let any = &rng.pick(&def.cols).name;
            aggs.push(match rng.below(8) {
                0 => "COUNT(*)".to_string(),
                1 => format!("COUNT({})", any),
                2 => format!("SUM({})", c),
                3 => format!("AVG({})", c),
                4 => format!("MIN({})", any),
                5 => format!("MAX({})", any),
                6 => format!("SUM({} * {})", c, rng.pick(&ints).name),
                _ => format!("SUM({} + {})", c, rng.range(0, 3)),
            });
        }
        // WHERE restricted to what is_simple_predicate admits, so that the gate really opens
        let mut wh = String::new();
        if rng.chance(2, 3) {
            let mut parts = Vec::new();
            for _ in 0..1 + rng.usize(2) {
                let picked = rng.pick(&ints).name.clone();
                let ci = def.cols.iter().position(|c| c.name == picked).unwrap_or(0);
                let l = gen_lit_for(rng, &self.sw, &self.sut, def, ci).sql();
                parts.push(match rng.below(5) {
                    0 => {
                        let l2 = gen_lit_for(rng, &self.sw, &self.sut, def, ci).sql();
                        format!("{} BETWEEN {} AND {}", def.cols[ci].name, l, l2)
                    }
                    _ => format!("{} {} {}", def.cols[ci].name, rng.pick(&Cmp::ALL).sql(), l),
                });
            }
            wh = format!(" WHERE {}", parts.join(" AND "));
        }
        let mut tail = String::new();
        let mut removes_row = false;
        if rng.chance(1, 6) {
            tail.push_str(&format!(" HAVING COUNT(*) > {}", rng.below(3)));
            removes_row = true;
        }
        if rng.chance(1, 8) {
            let k = rng.below(3);
            tail.push_str(&format!(" LIMIT {}", k));
            removes_row = true;
            if rng.chance(1, 2) {
                tail.push_str(&format!(" OFFSET {}", rng.below(2)));
            }
        }
        let sql = format!("SELECT {} FROM {}{}{}", aggs.join(", "), def.name, wh, tail);
        let mut op = Op::new(Kind::Probe, sql);
        op.name = Some("columnar_agg".into());
        op.fault = if removes_row { "may_remove_row".into() } else { String::new() };
        // positions of COUNT aggregates (never NULL)
        op.sets = aggs.iter().enumerate().filter(|(_, a)| a.starts_with("COUNT")).map(|(i, _)| (i.to_string(), String::new())).collect();
        Some(op)
    }

    fn join_family(&self, rng: &mut Rng) -> Option<Op> {
        let names = self.world.table_names();
        if names.is_empty() {
            return None;
        }
        let a = &self.world.tables[rng.pick(&names)];
        let b = &self.world.tables[rng.pick(&names)];
        // join columns of the same type class
        let mut pairs = Vec::new();
        for x in &a.cols {
            for y in &b.cols {
                if x.ty_class() == y.ty_class() {
                    pairs.push((x.name.clone(), y.name.clone()));
                }
            }
        }
        if pairs.is_empty() {
            return None;
        }
        let (ca, cb) = rng.pick(&pairs).clone();
        let lit = |rng: &mut Rng, d: &TableDef, alias: &str| -> String {
            let ci = rng.usize(d.cols.len());
            let l = gen_lit_for(rng, &self.sw, &self.sut, d, ci).sql();
            match rng.below(5) {
                0 => format!("{}.{} IS NOT NULL", alias, d.cols[ci].name),
                _ => format!("{}.{} {} {}", alias, d.cols[ci].name, rng.pick(&Cmp::ALL).sql(), l),
            }
        };
        let pa = lit(rng, a, "x");
        let pb = lit(rng, b, "y");
        let (an, bn) = (&a.name, &b.name);
        let xs: Vec<String> = a.cols.iter().map(|c| format!("x.{}", c.name)).collect();
        let xl = xs.join(", ");
        let mut fam: Vec<String> = Vec::new();
        let shape;
        match rng.below(6) {
            5 => {
                // INNER JOIN whose ON condition is an OR of conjunctions that each carry an equi-join
                // (some branches share one, one has its own) against the same predicate over the cross product
                shape = "or_join";
                let (ca2, cb2) = rng.pick(&pairs).clone();
                let p1 = lit(rng, a, "x");
                let p2 = lit(rng, b, "y");
                let p3 = lit(rng, b, "y");
                let cond = match rng.below(3) {
                    0 => format!("(x.{ca} = y.{cb} AND {p1}) OR (x.{ca} = y.{cb} AND {p2}) OR (x.{ca2} = y.{cb2} AND {p3})"),
                    1 => format!("(x.{ca2} = y.{cb2} AND {p3}) OR (x.{ca} = y.{cb} AND {p1}) OR (x.{ca} = y.{cb} AND {p2})"),
                    _ => format!("(x.{ca} = y.{cb} AND {p1}) OR (x.{ca} = y.{cb} AND {p2})"),
                };
                let sel = format!("x.{c0}, y.{d0}, x.{ca}, y.{cb}", c0 = a.cols[0].name, d0 = b.cols[0].name);
                fam.push(format!("SELECT {sel} FROM {an} x INNER JOIN {bn} y ON {cond}"));
                fam.push(format!("SELECT {sel} FROM {an} x, {bn} y WHERE {cond}"));
                fam.push(format!("SELECT {sel} FROM {an} x INNER JOIN (SELECT * FROM {bn}) AS y ON {cond}"));
            }
            0 => {
                shape = "semi";
                fam.push(format!("SELECT {xl} FROM {an} x WHERE x.{ca} IN (SELECT y.{cb} FROM {bn} y WHERE {pb})"));
                fam.push(format!("SELECT {xl} FROM {an} x WHERE EXISTS (SELECT 1 FROM {bn} y WHERE y.{cb} = x.{ca} AND {pb})"));
                fam.push(format!("SELECT {xl} FROM (SELECT * FROM {an}) AS x WHERE x.{ca} IN (SELECT y.{cb} FROM {bn} y WHERE {pb})"));
            }
            1 => {
                if self.sw.guard("c05_anti_join_nullable_keys") {
                    // known finding C05-not-exists-rewrite: keep anti-join intents on NOT NULL keys
                    let nn = |d: &TableDef, n: &str| d.col_index(n).map(|i| d.cols[i].not_null || d.pk.contains(&i)).unwrap_or(false);
                    if !(nn(a, &ca) && nn(b, &cb)) {
                        return None;
                    }
                }
                shape = "anti";
                fam.push(format!("SELECT {xl} FROM {an} x WHERE x.{ca} IS NOT NULL AND NOT EXISTS (SELECT 1 FROM {bn} y WHERE y.{cb} = x.{ca} AND {pb})"));
                fam.push(format!("SELECT {xl} FROM {an} x WHERE x.{ca} IS NOT NULL AND x.{ca} NOT IN (SELECT y.{cb} FROM {bn} y WHERE y.{cb} IS NOT NULL AND {pb})"));
            }
            2 => {
                shape = "inner";
                let sel = format!("x.{ca}, y.{cb}, x.{c0}, y.{d0}", c0 = a.cols[0].name, d0 = b.cols[0].name);
                fam.push(format!("SELECT {sel} FROM {an} x, {bn} y WHERE x.{ca} = y.{cb} AND {pa}"));
                fam.push(format!("SELECT {sel} FROM {bn} y, {an} x WHERE x.{ca} = y.{cb} AND {pa}"));
                fam.push(format!("SELECT {sel} FROM {an} x INNER JOIN {bn} y ON x.{ca} = y.{cb} WHERE {pa}"));
                fam.push(format!("SELECT {sel} FROM {an} x, (SELECT * FROM {bn}) AS y WHERE x.{ca} = y.{cb} AND {pa}"));
                fam.push(format!("SELECT {sel} FROM {an} x, {bn} y WHERE {pa} AND y.{cb} = x.{ca}"));
            }
            3 if names.len() >= 1 => {
                shape = "inner3";
                // three-way comma join in two permutations
                let c = &self.world.tables[rng.pick(&names)];
                let cc: Vec<&ColDef> = c.cols.iter().filter(|z| b.cols.iter().any(|y| y.name == cb && y.ty_class() == z.ty_class())).collect();
                if cc.is_empty() {
                    return None;
                }
                let cz = &rng.pick(&cc).name;
                let cn = &c.name;
                let sel = format!("x.{ca}, y.{cb}, z.{cz}");
                fam.push(format!("SELECT {sel} FROM {an} x, {bn} y, {cn} z WHERE x.{ca} = y.{cb} AND y.{cb} = z.{cz} AND {pa}"));
                fam.push(format!("SELECT {sel} FROM {cn} z, {an} x, {bn} y WHERE x.{ca} = y.{cb} AND y.{cb} = z.{cz} AND {pa}"));
                fam.push(format!("SELECT {sel} FROM {bn} y, {cn} z, {an} x WHERE y.{cb} = z.{cz} AND {pa} AND x.{ca} = y.{cb}"));
            }
            _ => {
                shape = "left_or_single";
                // no rendering family: one query, masks only
                fam.push(format!("SELECT x.{c0}, y.{d0} FROM {an} x LEFT JOIN {bn} y ON x.{ca} = y.{cb} WHERE {pa}", c0 = a.cols[0].name, d0 = b.cols[0].name));
            }
        }
        let mut op = Op::new(Kind::Probe, fam[0].clone());
        op.cols = fam[1..].to_vec();
        op.name = Some(shape.to_string());
        Some(op)
    }

    /// A view definition: every view exposes two columns `a` (INTEGER-valued) and `b`.
    /// Returns (CREATE VIEW text, defining query with the column names as aliases).
    fn view_def(&self, rng: &mut Rng, name: &str) -> Option<(String, String)> {
        let names = self.world.table_names();
        if names.is_empty() {
            return None;
        }
        let t = &self.world.tables[rng.pick(&names)];
        let ints: Vec<&ColDef> = t.cols.iter().filter(|c| c.ty == Ty::Int).collect();
        if ints.is_empty() {
            return None;
        }
        let ca = &rng.pick(&ints).name;
        let cb = &t.cols[rng.usize(t.cols.len())].name;
        let o = PredOpts { truthy: false, mixed_numeric: false, allow_or_not: true };
        let pred = gen_pred(rng, &self.sw, &self.sut, t, o);
        let tn = &t.name;
        let views: Vec<&String> = self.world.views.keys().collect();
        Some(match rng.below(8) {
            0 => {
                let q = format!("SELECT {ca} AS a, {cb} AS b FROM {tn} WHERE {pred}");
                (format!("CREATE VIEW {name} AS {q}"), q)
            }
            1 => {
                // same names at other positions (b first)
                let q = format!("SELECT {cb} AS b, {ca} AS a FROM {tn} WHERE {pred}");
                (format!("CREATE VIEW {name} AS {q}"), q)
            }
            2 => {
                // explicit column list on the view, aliases only in the inlined form
                let q = format!("SELECT {ca} AS a, {cb} AS b FROM {tn}");
                (format!("CREATE VIEW {name} (a, b) AS SELECT {ca}, {cb} FROM {tn}"), q)
            }
            3 => {
                let q = format!("SELECT {ca} + 1 AS a, {cb} AS b FROM {tn} WHERE {pred}");
                (format!("CREATE VIEW {name} AS {q}"), q)
            }
            4 => {
                let q = format!("SELECT {ca} AS a, COUNT(*) AS b FROM {tn} GROUP BY {ca}");
                (format!("CREATE VIEW {name} AS {q}"), q)
            }
            5 => {
                let u = &self.world.tables[rng.pick(&names)];
                let ui: Vec<&ColDef> = u.cols.iter().filter(|c| c.ty == Ty::Int).collect();
                if ui.is_empty() {
                    return None;
                }
                let cu = &rng.pick(&ui).name;
                let un = &u.name;
                let q = format!("SELECT x.{ca} AS a, y.{cu} AS b FROM {tn} x, {un} y WHERE x.{ca} = y.{cu}");
                (format!("CREATE VIEW {name} AS {q}"), q)
            }
            6 if !views.is_empty() => {
                // view over view; the inlined form nests the inner view's definition
                let inner = rng.pick(&views).to_string();
                let inner_q = self.world.views[&inner].clone();
                let lit = rng.range(0, self.sw.domain);
                let q = format!("SELECT i.a AS a, i.b AS b FROM ({inner_q}) AS i WHERE i.a <= {lit}");
                (format!("CREATE VIEW {name} AS SELECT i.a AS a, i.b AS b FROM {inner} i WHERE i.a <= {lit}"), q)
            }
            _ => {
                let q = format!("SELECT DISTINCT {ca} AS a, {ca} AS b FROM {tn}");
                (format!("CREATE VIEW {name} AS {q}"), q)
            }
        })
    }

    fn view_family(&self, rng: &mut Rng) -> Option<Op> {
        let views: Vec<(&String, &String)> = self.world.views.iter().collect();
        if views.is_empty() {
            return None;
        }
        let (vn, q) = *rng.pick(&views);
        let lit = rng.range(-1, self.sw.domain + 1);
        let names = self.world.table_names();
        let outer = match rng.below(10) {
            // unqualified column references under an alias, with ORDER BY / DISTINCT on top
            7 => format!("SELECT a, b FROM {{SRC}} v WHERE a {} {} ORDER BY a, b", rng.pick(&Cmp::ALL).sql(), lit),
            8 => format!("SELECT DISTINCT a FROM {{SRC}} v WHERE a {} {}", rng.pick(&Cmp::ALL).sql(), lit),
            9 => format!("SELECT a, b FROM {{SRC}} v WHERE a BETWEEN {} AND {} ORDER BY b, a", lit - 2, lit + 2),
            0 => "SELECT v.a, v.b FROM {SRC} v".to_string(),
            1 => format!("SELECT v.a, v.b FROM {{SRC}} v WHERE v.a {} {}", rng.pick(&Cmp::ALL).sql(), lit),
            2 => format!("SELECT v.b FROM {{SRC}} v WHERE v.a = {} OR v.a IS NULL", lit),
            3 => "SELECT COUNT(*), COUNT(v.a), MIN(v.a), MAX(v.a) FROM {SRC} v".to_string(),
            4 => "SELECT v.a, COUNT(*) FROM {SRC} v GROUP BY v.a".to_string(),
            5 if !names.is_empty() => {
                let t = &self.world.tables[rng.pick(&names)];
                let ints: Vec<&ColDef> = t.cols.iter().filter(|c| c.ty == Ty::Int).collect();
                if ints.is_empty() {
                    "SELECT v.a FROM {SRC} v".to_string()
                } else {
                    format!("SELECT v.a, t.{c} FROM {{SRC}} v, {tn} t WHERE v.a = t.{c}", c = rng.pick(&ints).name, tn = t.name)
                }
            }
            _ => format!("SELECT DISTINCT v.a FROM {{SRC}} v WHERE v.a >= {}", lit),
        };
        let by_view = outer.replace("{SRC}", vn);
        let by_derived = outer.replace("{SRC}", &format!("({}) AS", q)).replace(") AS v", ") AS v");
        let by_cte = format!("WITH w AS ({}) {}", q, outer.replace("{SRC}", "w"));
        let mut op = Op::new(Kind::Probe, by_view);
        op.cols = vec![by_derived, by_cte];
        op.name = Some("view_family".into());
        // which view, in which definition, the renderings were written for (a minimised history that
        // lost the CREATE [OR REPLACE] VIEW must not compare them)
        op.table = Some(vn.clone());
        op.pred = Some(q.clone());
        Some(op)
    }

    fn parallel_probe(&self, rng: &mut Rng) -> Option<Op> {
        let o = crate::probe::ProbeOpts::default();
        let p = crate::probe::batch(rng, &self.sw, &self.sut, &self.world, o, 1).pop()?;
        if self.sw.big_rows > 0 {
            // keep runs bounded: the bulk-loaded table may take part in a probe only once, and not in
            // per-row correlated subqueries
            let big = self.world.table_names().into_iter().next().unwrap_or_default();
            let uses = p.sql.split(|c: char| !c.is_alphanumeric()).filter(|w| *w == big).count();
            if uses >= 2 || (uses >= 1 && matches!(p.shape, "exists" | "not_exists" | "scalar_subquery" | "left_join" | "in_subquery" | "not_in")) {
                // replace by a hash join of the big table with itself on its unique key: the build side
                // then spans more than one chunk, and the result stays small
                let def = &self.world.tables[&big];
                let k = &def.cols[def.pk.first().copied().unwrap_or(0)].name;
                let lim = rng.range(0, self.sw.big_rows as i64);
                let cyc = def.cols.iter().enumerate().find(|(i, c)| c.ty == Ty::Int && !def.pk.contains(i)).map(|(_, c)| c.name.clone());
                let sql = match (rng.below(5), cyc) {
                    (3, Some(c)) => format!("SELECT x.{k}, y.{k} FROM {big} x, {big} y WHERE x.{c} = y.{c} AND x.{k} < {lim}"),
                    (4, Some(c)) => format!("SELECT COUNT(*), SUM(x.{k}), SUM(y.{k}) FROM {big} x INNER JOIN {big} y ON x.{c} = y.{c}"),
                    (n, _) => match n % 3 {
                    0 => format!("SELECT x.{k}, y.{k} FROM {big} x, {big} y WHERE x.{k} = y.{k} AND x.{k} < {lim}"),
                    1 => format!("SELECT x.{k}, y.{k} FROM {big} x INNER JOIN {big} y ON x.{k} = y.{k} WHERE y.{k} >= {lim}"),
                    _ => format!("SELECT COUNT(*) FROM {big} x, {big} y WHERE x.{k} = y.{k}"),
                    },
                };
                let mut op = Op::new(Kind::Probe, sql);
                op.name = Some("big_self_hash_join".into());
                return Some(op);
            }
        }
        let mut op = Op::new(Kind::Probe, p.sql);
        op.fault = if p.total_order { "total".into() } else { String::new() };
        op.name = Some(p.shape.to_string());
        Some(op)
    }
}

impl Scenario for Mask {
    const NAME: &'static str = "mask";

    fn new(prop: &str, sw: &Swarm) -> Self {
        let mode = match prop {
            "C03" => Mode::Columnar,
            "C05" => Mode::Joins,
            "C04" => Mode::Parallel,
            "C32" => Mode::Views,
            other => panic!("mask scenario does not serve {}", other),
        };
        verif::set_skip_mask(0);
        verif::set_parallel_config(Some(3));
        verif::reset_hits();
        Mask { mode, sut: Sut::new(), world: World::default(), sw: sw.clone(), setup: Vec::new(), pending: Vec::new(), partial_mask: 0, float_rows: 0 }
    }

    fn next_op(&mut self, rng: &mut Rng, _cx: &mut Ctx) -> Option<Op> {
        if self.world.tables.is_empty() && self.setup.is_empty() && self.world.next_name == 0 {
            let n = if self.mode == Mode::Joins { self.sw.n_tables.max(2) } else { self.sw.n_tables };
            for i in 0..n {
                let d = gen_table(rng, &self.sw, &format!("t{}", i));
                self.setup.push(Op::create_table(d));
            }
            if self.sw.big_rows > 0 {
                // bulk-load the first table (no UNIQUE/CHECK/NOT NULL so that every row is accepted)
                if let Some(Op { def: Some(d), .. }) = self.setup.first().cloned() {
                    let mut d2 = d.clone();
                    d2.uniques.clear();
                    d2.checks.clear();
                    for (i, c) in d2.cols.iter_mut().enumerate() {
                        if !d2.pk.contains(&i) {
                            c.not_null = false;
                        }
                    }
                    if d2.pk.len() > 1 {
                        d2.pk.truncate(1);
                    }
                    self.setup[0] = Op::create_table(d2.clone());
                    let mut start = 0i64;
                    let mut left = self.sw.big_rows;
                    // sparse columns (Columnar): NULL in a long prefix or suffix of the stored rows, values
                    // only elsewhere (the shape an ALTER TABLE ADD COLUMN on a populated table leaves)
                    let total = self.sw.big_rows;
                    let sparse: Vec<(usize, usize)> = d2
                        .cols
                        .iter()
                        .enumerate()
                        .map(|(i, _)| {
                            if self.mode != Mode::Columnar || d2.pk.contains(&i) || !rng.chance(1, 2) {
                                (0, total)
                            } else if rng.chance(2, 3) {
                                (100 + rng.usize(total.saturating_sub(100).max(1)), total)
                            } else {
                                (0, rng.usize(total / 2 + 1))
                            }
                        })
                        .collect();
                    while left > 0 {
                        let k = left.min(400);
                        let mut op = gen_bulk_insert(rng, &self.sw, &d2, start, k);
                        // (Parallel) a join column whose values cycle with period 1000: distinct inside one
                        // build partition, repeated across partitions
                        let cyc = if self.mode == Mode::Parallel { d2.cols.iter().enumerate().position(|(i, c)| c.ty == Ty::Int && !d2.pk.contains(&i)) } else { None };
                        for (ri, row) in op.rows.iter_mut().enumerate() {
                            let pos = start as usize + ri;
                            for (ci, (from, to)) in sparse.iter().enumerate() {
                                if pos < *from || pos >= *to {
                                    row[ci] = Lit::Null;
                                }
                            }
                            if let Some(ci) = cyc {
                                row[ci] = Lit::Int((pos % 1000) as i64);
                            }
                        }
                        let op = Op::insert(&d2.name, &[], op.rows);
                        self.setup.push(op);
                        start += k as i64;
                        left -= k;
                    }
                }
            }
            if self.mode == Mode::Columnar && self.sw.max_rows_stmt == 5 {
                // floating point kernels (one run in 6): DOUBLE PRECISION / NUMERIC columns, row counts at and
                // around the SIMD batch size; values are multiples of 0.25, so sums are exact in any order
                let n = *rng.pick(&[1024usize, 2048, 1000, 1100, 1025, 3072]);
                self.float_rows = n;
                self.setup.push(Op::new(Kind::Other, "CREATE TABLE tf (id INTEGER, x DOUBLE PRECISION, y NUMERIC(12,2), r REAL, s VARCHAR(12), d DATE, b BOOLEAN, e DOUBLE PRECISION)".into()));
                let with_nulls = rng.chance(1, 3);
                // every value and every partial sum is exact in f64, so the order of summation cannot matter;
                // a third of the x values is not representable in f32
                // column e is only ever compared with integer literals: half-way between them with the guard of
                // known finding C03-columnar-filter-epsilon, 2^-31 above one without it
                let far = self.sw.guard("c03_no_near_equal_literals");
                let mut i = 0usize;
                while i < n {
                    let k = (n - i).min(256);
                    let rows: Vec<String> = (i..i + k)
                        .map(|j| {
                            let null = with_nulls && j % 97 == 5;
                            let x = if null {
                                "NULL".to_string()
                            } else if j % 3 != 0 {
                                format!("{:.1}", (j as f64) * 0.5 - 100.0)
                            } else {
                                // exact in f64 (as is every partial sum, in any order), not representable in f32
                                format!("{:.1}", (j as f64) * 0.5 + 33554432.0)
                            };
                            // values in table order are neither ascending nor descending
                            let h = (j * 7919) % 1013;
                            let (r, sv, d, b) = if with_nulls && j % 89 == 7 {
                                ("NULL".to_string(), "NULL".to_string(), "NULL".to_string(), "NULL")
                            } else {
                                (
                                    format!("{:.2}", (h as f64) * 0.25 - 50.0),
                                    format!("'w{:04}'", h),
                                    format!("DATE '{:04}-{:02}-{:02}'", 1990 + h % 40, 1 + h % 12, 1 + h % 28),
                                    if h % 5 < 2 { "TRUE" } else { "FALSE" },
                                )
                            };
                            let e = if far || j % 3 != 0 { format!("{}.5", j % 64) } else { format!("{}.000000000465661287307739257812", j % 64) };
                            format!("({}, {}, {:.2}, {}, {}, {}, {}, {})", j + 1, x, (((j * 31) % 50) as f64) + 0.25, r, sv, d, b, e)
                        })
                        .collect();
                    self.setup.push(Op::new(Kind::Other, format!("INSERT INTO tf VALUES {}", rows.join(", "))));
                    i += k;
                }
            }
            self.setup.reverse();
            self.world.next_name = 1;
            // one partial mask per run (constant for the whole run)
            let mut m = 0u64;
            for s in JOIN_SITES {
                if rng.chance(1, 2) {
                    m |= 1 << s;
                }
            }
            self.partial_mask = m;
            let mut o = Op::new(Kind::Other, String::new());
            o.name = Some(format!("partial_mask={}", m));
            self.setup.insert(0, o);
        }
        if let Some(op) = self.setup.pop() {
            return Some(op);
        }
        if let Some(p) = self.pending.pop() {
            return Some(p);
        }
        if self.float_rows > 0 && rng.chance(1, 3) {
            let n = self.float_rows as i64;
            let c = *rng.pick(&["x", "y", "r"]);
            let o = *rng.pick(&["s", "d", "b", "r", "x"]);
            let w = match rng.below(7) {
                0 => String::new(),
                1 => format!(" WHERE id BETWEEN 1 AND {}", 1024 * rng.range(1, 3)),
                2 => format!(" WHERE id <= {}", rng.range(0, n + 1)),
                3 => format!(" WHERE id > {} AND id <= {}", rng.range(0, 30), 1024 + rng.range(0, 30)),
                // a float column against an integer literal and against a decimal literal (never closer
                // than 0.05 to a stored value unless equal)
                4 => format!(" WHERE {} >= {}", c, rng.range(-100, 300)),
                5 => format!(" WHERE {} {} {}.125", c, rng.pick(&["<", "<=", ">", ">="]), rng.range(-50, 200)),
                _ => format!(" WHERE id > {} AND {} < {}", rng.range(0, n), c, rng.range(-100, 300)),
            };
            if rng.chance(1, 6) {
                let k = rng.range(0, 64);
                let w = match rng.below(4) {
                    0 => format!("e = {}", k),
                    1 => format!("e <> {}", k),
                    2 => format!("e BETWEEN {} AND {}", k, k + rng.range(0, 3)),
                    _ => format!("e {} {}", rng.pick(&["<", "<=", ">", ">="]), k),
                };
                let mut op = Op::new(Kind::Probe, format!("SELECT COUNT(*), MIN(id), MAX(id) FROM tf WHERE {}", w));
                op.name = Some("float_filter".into());
                return Some(op);
            }
            let sel = match rng.below(7) {
                0 => format!("SUM({c}), AVG({c}), MIN({c}), MAX({c}), COUNT(*)"),
                1 => format!("SUM({c}), COUNT({c})"),
                2 => format!("MIN({c}), MAX({c})"),
                3 => format!("AVG({c})"),
                4 => format!("MIN({o}), MAX({o}), COUNT({o})"),
                5 => format!("MAX({o}), COUNT(*), SUM({c})"),
                _ => "*, COUNT(*)".to_string(),
            };
            let mut op = Op::new(Kind::Probe, format!("SELECT {} FROM tf{}", sel, w));
            op.name = Some("float_aggregates".into());
            return Some(op);
        }
        if self.mode == Mode::Views && (self.world.views.is_empty() || rng.chance(1, 6)) {
            if self.world.views.len() >= 3 && rng.chance(1, 2) {
                let vs: Vec<String> = self.world.views.keys().cloned().collect();
                let v = rng.pick(&vs).clone();
                return Some(Op::new(Kind::DropView, format!("DROP VIEW {}", v)).named(&v));
            }
            // CREATE OR REPLACE of an existing view that no other view is built on
            let replaceable: Vec<String> = self
                .world
                .views
                .iter()
                .filter(|(n, q)| !self.world.views.iter().any(|(m, oq)| m != *n && oq.contains(&format!("({}) AS i", q))))
                .map(|(n, _)| n.clone())
                .collect();
            if !replaceable.is_empty() && rng.chance(1, 3) {
                let name = rng.pick(&replaceable).clone();
                if let Some((ddl, q)) = self.view_def(rng, &name) {
                    if !q.contains(&format!("({}) AS i", self.world.views[&name])) {
                        let mut op = Op::new(Kind::CreateView, ddl.replacen("CREATE VIEW", "CREATE OR REPLACE VIEW", 1)).named(&name);
                        op.pred = Some(q);
                        op.fault = "replace-view".into();
                        return Some(op);
                    }
                }
            }
            let name = self.world.fresh_name("v");
            if let Some((ddl, q)) = self.view_def(rng, &name) {
                let mut op = Op::new(Kind::CreateView, ddl).named(&name);
                op.pred = Some(q);
                return Some(op);
            }
        }
        let sw = self.sw.clone();
        let names = self.world.table_names();
        if names.is_empty() {
            return None;
        }
        let def = self.world.tables[rng.pick(&names)].clone();
        let o = PredOpts { truthy: false, mixed_numeric: false, allow_or_not: true };
        let weights = [sw.w_insert * 2, sw.w_update, sw.w_delete, sw.w_truncate, if sw.with_indexes && self.mode != Mode::Columnar { sw.w_index } else { 0 }, if sw.with_analyze { 1 } else { 0 }];
        let op = match rng.weighted(&weights) {
            0 => gen_insert(rng, &sw, &self.sut, &def, None),
            1 => gen_update(rng, &sw, &self.sut, &def, o),
            2 => gen_delete(rng, &sw, &self.sut, &def, o),
            3 => Op::new(Kind::Truncate, format!("TRUNCATE TABLE {}", def.name)).table(&def.name),
            4 => {
                let ix = gen_index(rng, &sw, &mut self.world, &def);
                Op::create_index(ix)
            }
            _ => Op::new(Kind::Analyze, format!("ANALYZE {}", def.name)).table(&def.name),
        };
        let k = 2 + rng.usize(4);
        for _ in 0..k {
            let p = match self.mode {
                Mode::Columnar => self.columnar_probe(rng),
                Mode::Joins => self.join_family(rng),
                Mode::Parallel => self.parallel_probe(rng),
                Mode::Views => self.view_family(rng),
            };
            if let Some(p) = p {
                self.pending.push(p);
            }
        }
        Some(op)
    }

    fn step(&mut self, op: &Op, cx: &mut Ctx) -> Step {
        let prop = cx.prop.clone();
        let oracle = |s: &str| format!("{}.{}", prop.to_lowercase(), s);
        match &op.kind {
            Kind::Other => {
                if let Some(n) = &op.name {
                    if let Some(v) = n.strip_prefix("partial_mask=") {
                        self.partial_mask = v.parse().unwrap_or(0);
                    }
                }
                if !op.sql.is_empty() {
                    // raw setup statement (tables the generator's own types cannot describe)
                    let out = self.sut.exec(&op.sql);
                    cx.log.str(out.class());
                    if !out.is_ok() {
                        return Step::EndForeign("raw_setup_statement_failed".into());
                    }
                    cx.state_changes += 1;
                }
                Step::Continue
            }
            Kind::Probe => {
                if let (Mode::Views, Some(v), Some(def)) = (self.mode, &op.table, &op.pred) {
                    if self.world.views.get(v) != Some(def) {
                        return Step::EndForeign("probe_written_for_another_view_definition".into());
                    }
                }
                let mut renderings = vec![op.sql.clone()];
                renderings.extend(op.cols.iter().cloned());
                let configs = self.configs();
                let total = op.fault == "total";
                let base_schedule = simcore::mix(cx.step_no as u64, 0x5C4ED);
                let mut first: Option<(String, Out)> = None;
                if let Some(shape) = &op.name {
                    cx.rep.count(&format!("probe.{}", shape));
                }
                for (ri, sql) in renderings.iter().enumerate() {
                    for c in &configs {
                        let before: Vec<u64> = (0..site::COUNT as u32).map(verif::hits).collect();
                        let out = self.run_under(c, sql, base_schedule);
                        for s in 0..site::COUNT as u32 {
                            if verif::hits(s) > before[s as usize] {
                                cx.rep.count(&format!("reach.site.{}", site::NAMES[s as usize]));
                            }
                        }
                        let par = crate::parhook::take_counters();
                        for (k, v) in par {
                            cx.rep.add(&format!("reach.par.{}", k), v);
                        }
                        if out.is_panic() {
                            return Step::EndForeign("panic".into());
                        }
                        let label = format!("rendering {} under {}", ri, c.name);
                        cx.log.str(out.class());
                        if let Out::Rows(r) = &out {
                            cx.log.u64(r.len() as u64);
                        }
                        // C03 absolute clauses, on the gated path only
                        if self.mode == Mode::Columnar && c.mask == 0 {
                            if let Out::Rows(rows) = &out {
                                cx.eval(&oracle("absolute"));
                                if op.fault != "may_remove_row" && rows.len() != 1 {
                                    return cx.violation(&oracle("one_row"), format!("{} returned {} rows; an aggregate query without GROUP BY yields exactly one row", sql, rows.len()));
                                }
                                for row in rows {
                                    for (pos, _) in &op.sets {
                                        let i: usize = pos.parse().unwrap_or(0);
                                        if matches!(row.get(i), Some(SqlValue::Null)) {
                                            return cx.violation(&oracle("count_not_null"), format!("{} returned NULL for a COUNT aggregate: {:?}", sql, crate::sut::canon_row(row)));
                                        }
                                    }
                                }
                            }
                        }
                        match &first {
                            None => first = Some((label, out)),
                            Some((l0, o0)) => {
                                cx.eval(&oracle("paths_agree"));
                                match (o0, &out) {
                                    (Out::Rows(a), Out::Rows(b)) => {
                                        if !a.is_empty() {
                                            cx.reach("probe_nonempty");
                                        }
                                        cx.rep.count(&format!("reach.probe_rows.{}", op.name.as_deref().unwrap_or("other")));
                                        let same = if self.mode == Mode::Columnar {
                                            // numeric results compared by value, not by storage type
                                            // (AVG is Double on one path and Numeric on the other)
                                            crate::scen_hist::vbag(a) == crate::scen_hist::vbag(b)
                                        } else {
                                            bag(a) == bag(b)
                                        };
                                        if !same {
                                            return cx.violation(&oracle("paths_agree"), format!("{} [{}] returns {:?} but {} [{}] returns {:?}", renderings[0], l0, bag(a), sql, label, bag(b)));
                                        }
                                        if total && seq(a) != seq(b) {
                                            return cx.violation(&oracle("order_agree"), format!("{} : order differs between [{}] {:?} and [{}] {:?}", sql, l0, seq(a), label, seq(b)));
                                        }
                                    }
                                    (Out::Err(_), Out::Err(_)) => {
                                        // both fail alike: agreement, but it says little - counted so that a probe
                                        // family that only ever fails shows up in the evidence
                                        cx.reach(&format!("probe_both_error.{}", op.name.as_deref().unwrap_or("other")));
                                    }
                                    (x, y) => {
                                        // a probe over an object the (minimised) history no longer creates says
                                        // nothing about the property
                                        let missing = |o: &Out| matches!(o, Out::Err(e) if e.contains("not found") && (e.contains("Table") || e.contains("View")));
                                        if self.mode == Mode::Views && (missing(x) || missing(y)) {
                                            return Step::EndForeign("probe_object_missing".into());
                                        }
                                        return cx.violation(&oracle("paths_agree"), format!("{} [{}] {} but {} [{}] {}", renderings[0], l0, x.brief(), sql, label, y.brief()));
                                    }
                                }
                            }
                        }
                    }
                }
                Step::Continue
            }
            _ => {
                let pre = table_snap(&self.sut, op.table.as_deref().unwrap_or(""));
                let out = self.sut.exec(&op.sql);
                cx.log.str(out.class());
                cx.sig.str(out.class());
                if out.is_panic() {
                    return Step::EndForeign("panic".into());
                }
                if out.is_err() && pre != table_snap(&self.sut, op.table.as_deref().unwrap_or("")) {
                    return Step::EndForeign("c11_partial_failure".into());
                }
                if out.is_ok() {
                    cx.state_changes += 1;
                }
                self.world.apply(op, &out);
                Step::Continue
            }
        }
    }
}
