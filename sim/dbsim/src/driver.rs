//! Scenario driver: step loop, event log, run signature, replay documents, minimisation.

use crate::gen::Swarm;
use crate::ops::Op;
use serde::{Deserialize, Serialize};
use simcore::runner::{RunReport, Violation};
use simcore::{Fnv, Rng};

pub enum Step {
    Continue,
    Violation(Violation),
    /// a divergence that belongs to another property: end the run without an alarm
    EndForeign(String),
}

/// Per-step bookkeeping shared by all scenarios.
pub struct Ctx {
    pub prop: String,
    pub rep: RunReport,
    pub log: Fnv,
    pub sig: Fnv,
    pub step_no: usize,
    pub state_changes: u64,
    pub nonvacuous: u64,
}

impl Ctx {
    pub fn new(prop: &str) -> Ctx {
        Ctx { prop: prop.to_string(), rep: RunReport::default(), log: Fnv::new(), sig: Fnv::new(), step_no: 0, state_changes: 0, nonvacuous: 0 }
    }
    /// one oracle evaluation that actually compared something
    pub fn eval(&mut self, oracle: &str) {
        self.rep.evaluations += 1;
        self.nonvacuous += 1;
        self.rep.count(&format!("oracle.{}", oracle));
    }
    pub fn reach(&mut self, what: &str) {
        self.rep.count(&format!("reach.{}", what));
        self.sig.str(what);
    }
    pub fn fault(&mut self, what: &str) {
        self.rep.count(&format!("fault.{}", what));
    }
    pub fn violation(&self, oracle: &str, detail: String) -> Step {
        Step::Violation(Violation { property: self.prop.clone(), oracle: oracle.to_string(), detail, step: self.step_no })
    }
    pub fn is(&self, p: &str) -> bool {
        self.prop == p
    }
}

pub trait Scenario: Sized {
    const NAME: &'static str;
    fn new(prop: &str, sw: &Swarm) -> Self;
    /// Generate the next operation (may inspect the scenario's SUT state). None = history ends.
    fn next_op(&mut self, rng: &mut Rng, cx: &mut Ctx) -> Option<Op>;
    /// Execute `op` on the system(s) under test and evaluate this property's oracles.
    fn step(&mut self, op: &Op, cx: &mut Ctx) -> Step;
    /// History-level oracles after the last step.
    fn finish(&mut self, _cx: &mut Ctx) -> Step {
        Step::Continue
    }
}

#[derive(Clone, Debug, Serialize, Deserialize)]
pub struct ReplayDoc {
    pub engine: String,
    pub scenario: String,
    pub property: String,
    pub oracle: String,
    pub run_seed: u64,
    pub swarm: Swarm,
    pub ops: Vec<Op>,
    pub detail: String,
    #[serde(default)]
    pub minimised_from: usize,
}

fn drive<S: Scenario>(prop: &str, sw: &Swarm, mut source: impl FnMut(&mut S, &mut Ctx) -> Option<Op>, max_steps: usize) -> (Ctx, Vec<Op>, Option<Violation>) {
    let mut cx = Ctx::new(prop);
    // the executor's rayon operators would run on real worker threads: outside scen_mask (which installs its
    // own configurations, and for C04 the seeded scheduler stand-in) every run uses the never-parallel
    // thresholds, so that large tables cannot make an event log depend on thread timing
    vibesql_types::verif::set_parallel_config(Some(3));
    let mut sc = S::new(prop, sw);
    let mut ops: Vec<Op> = Vec::new();
    let mut violation = None;
    let mut ended = false;
    for i in 0..max_steps {
        cx.step_no = i;
        let op = match source(&mut sc, &mut cx) {
            Some(o) => o,
            None => break,
        };
        cx.log.u64(i as u64).str(&op.sql).str(&op.kind.name());
        cx.sig.str(&op.kind.name());
        cx.rep.count(&format!("op.{}", op.kind.name()));
        if !op.fault.is_empty() {
            let kind = op.fault.split('@').next().unwrap_or("").to_string();
            cx.fault(&kind);
        }
        ops.push(op.clone());
        cx.rep.steps += 1;
        let trace = std::env::var_os("VERIF_TRACE").is_some();
        let t0 = std::time::Instant::now();
        let step_result = sc.step(&op, &mut cx);
        if trace {
            // development aid only; never enabled by a registered command (reads the real clock)
            eprintln!("[{:>4}] {:>8.1}ms {} {}", i, t0.elapsed().as_secs_f64() * 1e3, op.kind.name(), op.sql.chars().take(200).collect::<String>());
        }
        match step_result {
            Step::Continue => {}
            Step::Violation(v) => {
                violation = Some(v);
                ended = true;
                break;
            }
            Step::EndForeign(why) => {
                cx.rep.ended_on_foreign_divergence = true;
                cx.rep.count(&format!("foreign.{}", why));
                ended = true;
                break;
            }
        }
    }
    if !ended {
        match sc.finish(&mut cx) {
            Step::Violation(v) => violation = Some(v),
            Step::EndForeign(why) => {
                cx.rep.ended_on_foreign_divergence = true;
                cx.rep.count(&format!("foreign.{}", why));
            }
            Step::Continue => {}
        }
    }
    (cx, ops, violation)
}

/// One generated run: a pure function of (property, run_seed, guards).
pub fn run_generated<S: Scenario>(prop: &str, run_seed: u64, guards: &[String], tweak: impl Fn(&mut Swarm)) -> RunReport {
    let mut swarm_rng = Rng::fork(run_seed, 1);
    let mut sw = Swarm::draw(&mut swarm_rng, guards);
    tweak(&mut sw);
    let mut wl = Rng::fork(run_seed, 4);
    let steps = sw.steps;
    let (mut cx, ops, violation) = drive::<S>(prop, &sw, |sc, cx| sc.next_op(&mut wl, cx), steps);
    cx.rep.signature = cx.sig.get();
    cx.rep.log_digest = cx.log.get();
    cx.rep.nontrivial = cx.state_changes >= 1 && cx.nonvacuous >= 1;
    let brief: Vec<String> = ops.iter().take(40).map(|o| if o.sql.is_empty() { o.kind.name() } else { o.sql.clone() }).collect();
    cx.rep.sample = Some(serde_json::json!({"run_seed": run_seed, "steps": ops.len(), "history": brief}));
    if let Some(v) = &violation {
        let doc = ReplayDoc {
            engine: "dbsim".into(),
            scenario: S::NAME.into(),
            property: prop.into(),
            oracle: v.oracle.clone(),
            run_seed,
            swarm: sw.clone(),
            ops: ops.clone(),
            detail: v.detail.clone(),
            minimised_from: ops.len(),
        };
        cx.rep.replay = Some(serde_json::to_value(&doc).unwrap());
    }
    cx.rep.violation = violation;
    cx.rep
}

/// Re-execute an explicit operation list (no generation).
pub fn run_ops<S: Scenario>(prop: &str, sw: &Swarm, ops: &[Op]) -> (Option<Violation>, u64) {
    let mut it = ops.iter().cloned();
    let (cx, _ops, v) = drive::<S>(prop, sw, |_sc, _cx| it.next(), ops.len() + 1);
    (v, cx.log.get())
}

/// Shrink a failing document: ddmin over the op list, then per-op simplification, accepting a
/// candidate only if the same oracle of the same property fails. Every candidate runs on a fresh
/// thread with the hash stream of the original run.
pub fn minimise<S: Scenario>(doc: &ReplayDoc) -> ReplayDoc {
    use simcore::runner::{run_isolated, Isolated};
    let prop = doc.property.clone();
    let oracle = doc.oracle.clone();
    let sw = doc.swarm.clone();
    let seed = doc.run_seed;
    let test = |ops: &[Op]| -> Option<Violation> {
        let ops = ops.to_vec();
        let (p, s) = (prop.clone(), sw.clone());
        match run_isolated(seed, std::time::Duration::from_secs(30), move || run_ops::<S>(&p, &s, &ops).0) {
            Isolated::Done(v) => v,
            _ => None,
        }
    };
    let mut last_detail = doc.detail.clone();
    let mut ops = simcore::ddmin::ddmin(doc.ops.clone(), 400, |cand| match test(cand) {
        Some(v) if v.oracle == oracle => true,
        _ => false,
    });
    // per-op shrinking: drop rows of multi-row inserts
    let mut budget = 200;
    let mut i = 0;
    while i < ops.len() && budget > 0 {
        if ops[i].kind == crate::ops::Kind::Insert && ops[i].rows.len() > 1 {
            let mut j = 0;
            while j < ops[i].rows.len() && ops[i].rows.len() > 1 && budget > 0 {
                let mut cand = ops.clone();
                let mut rows = cand[i].rows.clone();
                rows.remove(j);
                let fault = cand[i].fault.clone();
                cand[i] = Op::insert(&cand[i].table.clone().unwrap(), &cand[i].cols.clone(), rows).fault(&fault);
                budget -= 1;
                match test(&cand) {
                    Some(v) if v.oracle == oracle => ops = cand,
                    _ => j += 1,
                }
            }
        }
        i += 1;
    }
    if let Some(v) = test(&ops) {
        last_detail = v.detail;
    }
    ReplayDoc { ops, detail: last_detail, minimised_from: doc.ops.len(), ..doc.clone() }
}
