//! Small executable model of FOREIGN KEY semantics (single-column keys): the no-orphan invariant and
//! the effect of ON DELETE / ON UPDATE actions, computed from the pre-state and the rows the SUT's
//! own SELECT says the statement affects.

use crate::ops::*;
use crate::scen_hist::vnorm;
use std::collections::BTreeMap;
use vibesql_types::SqlValue;

pub type Rows = Vec<Vec<SqlValue>>;
pub type Tables = BTreeMap<String, Rows>;

pub enum Verdict {
    Post(Tables),
    MustReject(String),
    /// outside the modelled subset: no expectation
    Unknown(String),
}

/// (child table, fk) pairs that reference `parent`.
fn referencing<'a>(defs: &'a BTreeMap<String, TableDef>, parent: &str) -> Vec<(&'a TableDef, &'a Fk)> {
    let mut v = Vec::new();
    for d in defs.values() {
        for f in &d.fks {
            if f.parent.eq_ignore_ascii_case(parent) {
                v.push((d, f));
            }
        }
    }
    v
}

fn same(a: &SqlValue, b: &SqlValue) -> bool {
    !a.is_null() && !b.is_null() && vnorm(a) == vnorm(b)
}

/// Every non-NULL child FK value must occur as a parent key. Returns a description of an orphan.
pub fn orphan(defs: &BTreeMap<String, TableDef>, state: &Tables) -> Option<String> {
    for d in defs.values() {
        for f in &d.fks {
            let pdef = defs.get(&f.parent)?;
            let pc = pdef.col_index(&f.parent_col)?;
            let prow = state.get(&f.parent)?;
            if let Some(rows) = state.get(&d.name) {
                for r in rows {
                    let v = &r[f.col];
                    if v.is_null() {
                        continue;
                    }
                    if !prow.iter().any(|p| same(&p[pc], v)) {
                        return Some(format!("{}.{} = {} has no matching {}.{}", d.name, d.cols[f.col].name, vnorm(v), f.parent, f.parent_col));
                    }
                }
            }
        }
    }
    None
}

fn remove_one(rows: &mut Rows, r: &[SqlValue]) -> bool {
    let key: Vec<String> = r.iter().map(vnorm).collect();
    if let Some(i) = rows.iter().position(|x| x.iter().map(vnorm).collect::<Vec<_>>() == key) {
        rows.remove(i);
        true
    } else {
        false
    }
}

fn delete_rec(defs: &BTreeMap<String, TableDef>, st: &mut Tables, table: &str, victims: &[Vec<SqlValue>], depth: usize) -> Result<(), Verdict> {
    if depth > 8 {
        return Err(Verdict::Unknown("cascade depth".into()));
    }
    let def = match defs.get(table) {
        Some(d) => d,
        None => return Err(Verdict::Unknown("table".into())),
    };
    for v in victims {
        if !remove_one(st.get_mut(table).unwrap(), v) {
            return Err(Verdict::Unknown("selected row not in table".into()));
        }
    }
    for (cdef, fk) in referencing(defs, table) {
        let pc = match def.col_index(&fk.parent_col) {
            Some(c) => c,
            None => return Err(Verdict::Unknown("parent col".into())),
        };
        for v in victims {
            let key = &v[pc];
            if key.is_null() {
                continue;
            }
            // another remaining parent row with the same key keeps children valid (non-unique parent col)
            if st[table].iter().any(|p| same(&p[pc], key)) {
                continue;
            }
            let kids: Rows = st[&cdef.name].iter().filter(|c| same(&c[fk.col], key)).cloned().collect();
            if kids.is_empty() {
                continue;
            }
            match fk.on_delete.unwrap_or(FkAction::NoAction) {
                FkAction::Cascade => delete_rec(defs, st, &cdef.name, &kids, depth + 1)?,
                FkAction::SetNull => {
                    if cdef.cols[fk.col].not_null || cdef.pk.contains(&fk.col) {
                        return Err(Verdict::Unknown("SET NULL on NOT NULL column".into()));
                    }
                    for c in st.get_mut(&cdef.name).unwrap().iter_mut() {
                        if same(&c[fk.col], key) {
                            c[fk.col] = SqlValue::Null;
                        }
                    }
                }
                FkAction::Restrict | FkAction::NoAction => {
                    if cdef.name == table {
                        // self reference: the children may be victims of the same statement
                        return Err(Verdict::Unknown("self-referencing restrict".into()));
                    }
                    return Err(Verdict::MustReject(format!("{} row(s) of {} still reference {}.{} = {}", kids.len(), cdef.name, table, fk.parent_col, vnorm(key))));
                }
            }
        }
    }
    Ok(())
}

pub fn delete(defs: &BTreeMap<String, TableDef>, pre: &Tables, table: &str, selected: &[Vec<SqlValue>]) -> Verdict {
    let mut st = pre.clone();
    match delete_rec(defs, &mut st, table, selected, 0) {
        Ok(()) => Verdict::Post(st),
        Err(v) => v,
    }
}

/// `pairs` = (old image, new image) of every affected row.
pub fn update(defs: &BTreeMap<String, TableDef>, pre: &Tables, table: &str, pairs: &[(Vec<SqlValue>, Vec<SqlValue>)], assigned_cols: &[usize]) -> Verdict {
    let def = match defs.get(table) {
        Some(d) => d,
        None => return Verdict::Unknown("table".into()),
    };
    let mut st = pre.clone();
    // apply the new images
    for (old, new) in pairs {
        if !remove_one(st.get_mut(table).unwrap(), old) {
            return Verdict::Unknown("selected row not in table".into());
        }
        let _ = new;
    }
    for (_, new) in pairs {
        st.get_mut(table).unwrap().push(new.clone());
    }
    // parent side: referenced column changes
    for (cdef, fk) in referencing(defs, table) {
        let pc = match def.col_index(&fk.parent_col) {
            Some(c) => c,
            None => return Verdict::Unknown("parent col".into()),
        };
        let changed: Vec<(&SqlValue, &SqlValue)> = pairs.iter().map(|(o, n)| (&o[pc], &n[pc])).filter(|(o, n)| !o.is_null() && vnorm(o) != vnorm(n)).collect();
        if assigned_cols.iter().any(|c| *c == pc)
            && pre[&cdef.name].iter().any(|c| pairs.iter().any(|(o, n)| same(&c[fk.col], &o[pc]) && vnorm(&o[pc]) == vnorm(&n[pc])))
        {
            // the referenced column of a referenced row is assigned its own value: whether that
            // counts as an update of the key for ON UPDATE purposes is not settled by the statement
            return Verdict::Unknown("referenced column assigned unchanged value".into());
        }
        if changed.is_empty() {
            continue;
        }
        if cdef.name == table {
            return Verdict::Unknown("key update on self-referencing table".into());
        }
        // simultaneous mapping old -> new over this key's column (a column no other key of the child touches,
        // so the rows as left by the child's other foreign keys are the right starting point)
        let kids_pre: Rows = st[&cdef.name].clone();
        let mut kids_post: Rows = Vec::new();
        for c in kids_pre {
            let hit = changed.iter().find(|(o, _)| same(&c[fk.col], o));
            match hit {
                None => kids_post.push(c),
                Some((o, n)) => {
                    // still satisfied by another (post-state) parent row with the old key?
                    if st[table].iter().any(|p| same(&p[pc], o)) {
                        kids_post.push(c);
                        continue;
                    }
                    match fk.on_update.unwrap_or(FkAction::NoAction) {
                        FkAction::Cascade => {
                            if referencing(defs, &cdef.name).iter().any(|(_, f2)| cdef.col_index(&f2.parent_col) == Some(fk.col)) {
                                return Verdict::Unknown("cascading into a referenced column".into());
                            }
                            let mut c2 = c.clone();
                            c2[fk.col] = (*n).clone();
                            kids_post.push(c2);
                        }
                        FkAction::SetNull => {
                            if cdef.cols[fk.col].not_null || cdef.pk.contains(&fk.col) {
                                return Verdict::Unknown("SET NULL on NOT NULL column".into());
                            }
                            let mut c2 = c.clone();
                            c2[fk.col] = SqlValue::Null;
                            kids_post.push(c2);
                        }
                        FkAction::Restrict | FkAction::NoAction => {
                            return Verdict::MustReject(format!("{} still references {}.{} = {}", cdef.name, table, fk.parent_col, vnorm(o)));
                        }
                    }
                }
            }
        }
        st.insert(cdef.name.clone(), kids_post);
    }
    // child side: new FK values must exist in the (post-state) parent
    if let Some(o) = orphan(defs, &st) {
        return Verdict::MustReject(format!("would orphan: {}", o));
    }
    Verdict::Post(st)
}

pub fn bags(t: &Tables) -> BTreeMap<String, Vec<String>> {
    t.iter().map(|(k, v)| (k.clone(), crate::scen_hist::vbag(v))).collect()
}
