//! Control surface of the deterministic rayon stand-in (schedule seed, worker count, counters).
pub fn set_schedule(seed: u64) {
    rayon::sim::set_schedule(seed);
}
pub fn set_num_threads(n: usize) {
    rayon::sim::set_num_threads(n);
}
pub fn take_counters() -> Vec<(String, u64)> {
    rayon::sim::take_counters()
}
