//! Seeded database builder for image-based engines (filesim, C18 type coverage).
//!
//! Builds a `Database` by executing a short seeded history through the executors, plus one table that
//! covers the persisted value types (rows are added through the public storage API because the SQL
//! INSERT path does not coerce integer literals to SMALLINT etc.).

use crate::gen::*;
use crate::ops::*;
use crate::sut::Sut;
use crate::world::World;
use simcore::Rng;
use vibesql_storage::{Database, Row};
use vibesql_types::SqlValue;

pub fn typed_rows(rng: &mut Rng) -> Vec<Vec<SqlValue>> {
    use SqlValue::*;
    let d = |s: &str| s.parse::<vibesql_types::Date>().map(Date).unwrap_or(Null);
    let t = |s: &str| s.parse::<vibesql_types::Time>().map(Time).unwrap_or(Null);
    let ts = |s: &str| s.parse::<vibesql_types::Timestamp>().map(Timestamp).unwrap_or(Null);
    let strs = ["", "a", "it's", "say \"hi\"", "back\\slash", "semi;colon", "line\nbreak", "-- not a comment", "ünï✓", "%_", "NULL", "tab\there", "trailing\\", "x\n-- y\n;z", "''", "\r\n"];
    let mut rows = vec![
        vec![Smallint(1), Bigint(i64::MAX), Double(1.5), Real(2.5), Numeric(12.34), Character("ab   ".into()), Boolean(true), d("2024-02-29"), t("23:59:59"), ts("2024-02-29 12:00:00"), Varchar("it's".into()), Integer(i64::MAX)],
        vec![Smallint(i16::MIN), Bigint(i64::MIN), Double(-0.0), Real(f32::MAX), Numeric(-0.01), Character("     ".into()), Boolean(false), d("1999-12-31"), t("00:00:00"), ts("1999-12-31 23:59:59"), Varchar("ünï✓".into()), Integer(i64::MIN)],
        vec![Smallint(i16::MAX), Bigint(0), Double(f64::NAN), Real(f32::NEG_INFINITY), Numeric(1e15), Character("q'q  ".into()), Null, Null, Null, Null, Varchar("".into()), Integer(0)],
        vec![Null, Null, Double(f64::INFINITY), Real(-0.0), Null, Null, Null, Null, Null, Null, Null, Null],
        vec![Smallint(0), Bigint(-1), Double(f64::MIN_POSITIVE), Real(1e-30), Numeric(0.0), Character("x    ".into()), Boolean(true), d("0001-01-01"), t("12:34:56"), ts("2038-01-19 03:14:07"), Varchar("line\nbreak; -- x".into()), Integer(-1)],
    ];
    // fractional seconds: leading zeros, trailing zeros, full nanosecond precision
    let fr = ["08:00:00.005", "12:34:56.000001", "00:00:00.012345678", "23:59:59.999999999", "10:20:30.5", "10:20:30.120"];
    for k in 0..2 + rng.usize(3) {
        let a = *rng.pick(&fr);
        let b = *rng.pick(&fr);
        rows.push(vec![Smallint(k as i16), Bigint(k as i64), Double(0.5), Real(0.25), Numeric(1.0), Character("frac ".into()), Boolean(true), d("2021-03-04"), t(a), ts(&format!("2021-03-04 {}", b)), Varchar(a.into()), Integer(k as i64)]);
    }
    // CHAR values whose own content ends in white space that is not the blank pad
    for (k, f) in ["ab\t  ", "a\u{a0}   ", " x\r  ", "\t    "].iter().enumerate() {
        if rng.chance(1, 2) {
            rows.push(vec![Smallint(20 + k as i16), Bigint(0), Double(0.0), Real(0.0), Numeric(0.0), Character(f.to_string()), Null, Null, Null, Null, Varchar(f.to_string()), Integer(0)]);
        }
    }
    for _ in 0..rng.usize(4) {
        rows.push(vec![
            Smallint(rng.range(-5, 5) as i16),
            Bigint(rng.range(-1000, 1000)),
            Double(rng.range(-100, 100) as f64 / 8.0),
            Real(rng.range(-100, 100) as f32 / 4.0),
            Numeric(rng.range(-10000, 10000) as f64 / 100.0),
            Character(format!("{:<5}", rng.pick(&["", "a", "zz", "it's"]))),
            Boolean(rng.chance(1, 2)),
            d("2020-06-15"),
            t("01:02:03"),
            ts("2020-06-15 01:02:03"),
            Varchar(rng.pick(&strs).to_string()),
            Integer(rng.range(-50, 50)),
        ]);
    }
    // declared lengths beyond 255: a wide VARCHAR and a wide CHAR column
    for (i, r) in rows.iter_mut().enumerate() {
        let wide = match i % 4 {
            0 => Varchar("w".repeat(300)),
            1 => Varchar("ünï✓ ".repeat(40)),
            2 => Varchar(String::new()),
            _ => Null,
        };
        let ch = match i % 3 {
            0 => Character(format!("{:<260}", "wide char")),
            1 => Character(format!("{:<260}", "x".repeat(259))),
            _ => Null,
        };
        r.push(wide);
        r.push(ch);
    }
    rows
}

pub const TYPED_DDL: &str = "CREATE TABLE ty (a SMALLINT, b BIGINT, c DOUBLE PRECISION, d REAL, e NUMERIC(10,2), f CHAR(5), g BOOLEAN, h DATE, i TIME, j TIMESTAMP, k VARCHAR(30), l INTEGER, m VARCHAR(400), n CHAR(260))";

/// Build a database from `seed`. Returns the database and the SQL history (for samples).
pub fn make_db(seed: u64, with_typed: bool) -> (Database, Vec<String>) {
    let mut rng = Rng::fork(seed, 0x1A6E);
    let mut sw = Swarm::draw(&mut Rng::fork(seed, 0x5A), &[]);
    sw.with_tx = false;
    sw.fault_pct = 0;
    sw.extreme_ints = rng.chance(1, 3);
    let mut sut = Sut::new();
    let mut world = World::default();
    let mut history = Vec::new();
    let ntab = 1 + rng.usize(2);
    for i in 0..ntab {
        let def = gen_table(&mut rng, &sw, &format!("t{}", i));
        let op = Op::create_table(def);
        let out = sut.exec(&op.sql);
        world.apply(&op, &out);
        history.push(op.sql);
    }
    let steps = 3 + rng.usize(10);
    for _ in 0..steps {
        let names = world.table_names();
        if names.is_empty() {
            break;
        }
        let def = world.tables[rng.pick(&names)].clone();
        let o = PredOpts { truthy: false, mixed_numeric: false, allow_or_not: true };
        let op = match rng.below(10) {
            0..=5 => gen_insert(&mut rng, &sw, &sut, &def, None),
            6 => gen_update(&mut rng, &sw, &sut, &def, o),
            7 => gen_delete(&mut rng, &sw, &sut, &def, o),
            _ => {
                let ix = gen_index(&mut rng, &sw, &mut world, &def);
                Op::create_index(ix)
            }
        };
        let out = sut.exec(&op.sql);
        world.apply(&op, &out);
        history.push(op.sql);
    }
    if with_typed {
        let out = sut.exec(TYPED_DDL);
        if out.is_ok() {
            history.push(TYPED_DDL.to_string());
            for r in typed_rows(&mut rng) {
                let _ = sut.db.insert_row("TY", Row::new(r));
            }
            history.push("<typed rows through Database::insert_row>".into());
        }
    }
    (sut.db, history)
}
