simcore::define_getrandom!();

use dbsim::driver::ReplayDoc;
use dbsim::props::{self, PropSpec};
use dbsim::sut::{canon_row, Out, Sut};
use serde_json::json;
use simcore::evidence::{self, EvidenceMeta};
use simcore::findings::Findings;
use simcore::runner::{run_batch, run_isolated, BatchCfg, Isolated, Violation};
use std::io::BufRead;
use std::time::Duration;

fn repl() {
    simcore::runner::install_panic_hook();
    let mut sut = Sut::new();
    for line in std::io::stdin().lock().lines() {
        let line = line.unwrap();
        let l = line.trim();
        if l.is_empty() || l.starts_with('#') {
            continue;
        }
        if let Some(t) = l.strip_prefix(".typed ") {
            let rows = dbsim::imagegen::typed_rows(&mut simcore::Rng::fork(t.trim().parse().unwrap_or(0), 0x7E));
            for r in rows {
                println!("  {:?}", sut.db.insert_row("TY", vibesql_storage::Row::new(r)).map(|_| ()));
            }
            continue;
        }
        if let Some(t) = l.strip_prefix(".mask ") {
            vibesql_types::verif::set_skip_mask(t.trim().parse().unwrap_or(0));
            continue;
        }
        if let Some(t) = l.strip_prefix(".u ") {
            if let Some(tb) = sut.db.get_table(t.trim()) {
                println!("  schema.pk={:?} uniques={:?}", tb.schema.primary_key, tb.schema.unique_constraints);
                println!("  pk_index={:?}", tb.primary_key_index());
                println!("  unique_indexes={:?}", tb.unique_indexes());
                println!("  append_mode={}", tb.is_in_append_mode());
            }
            for ix in sut.db.list_indexes() {
                let d: Vec<_> = sut.db.get_index_data(&ix).map(|d| d.iter().collect()).unwrap_or_default();
                println!("  index {} {:?} = {:?}", ix, sut.db.get_index(&ix).map(|m| (m.table_name.clone(), m.unique)), d);
            }
            continue;
        }
        let out = sut.exec(l);
        println!("> {}", l);
        match &out {
            Out::Rows(rows) => {
                for r in rows {
                    println!("    {}", canon_row(r));
                }
                println!("  rows({})", rows.len());
            }
            o => println!("  {}", o.brief()),
        }
    }
}

fn arg(args: &[String], name: &str) -> Option<String> {
    args.iter().position(|a| a == name).and_then(|i| args.get(i + 1).cloned())
}

fn replay_doc(doc: &ReplayDoc) -> (Option<Violation>, u64) {
    let d = doc.clone();
    match run_isolated(doc.run_seed, Duration::from_secs(60), move || props::replay(&d)) {
        Isolated::Done(r) => r,
        Isolated::Panicked(p) => {
            eprintln!("HARNESS-ERROR: replay panicked outside the SUT: {}", p);
            std::process::exit(2)
        }
        Isolated::Hung => (Some(Violation { property: doc.property.clone(), oracle: "hang".into(), detail: "replay did not finish in 60 s".into(), step: 0 }), 0),
    }
}

fn cmd_replay(path: &str) -> i32 {
    let text = match std::fs::read_to_string(path) {
        Ok(t) => t,
        Err(e) => {
            eprintln!("HARNESS-ERROR: cannot read {}: {}", path, e);
            return 2;
        }
    };
    let doc: ReplayDoc = match serde_json::from_str(&text) {
        Ok(d) => d,
        Err(e) => {
            eprintln!("HARNESS-ERROR: cannot parse {}: {}", path, e);
            return 2;
        }
    };
    let (v, digest) = replay_doc(&doc);
    println!("replay {} ops, log digest {:016x}", doc.ops.len(), digest);
    match v {
        Some(v) => {
            println!("oracle={} step={} detail={}", v.oracle, v.step, v.detail);
            println!("VIOLATION property={} replay={}", doc.property, path);
            1
        }
        None => {
            println!("no violation on replay");
            0
        }
    }
}

fn cmd_check(args: &[String]) -> i32 {
    let prop = arg(args, "--property").expect("--property");
    let tier = arg(args, "--tier").or_else(|| std::env::var("VERIF_TIER").ok()).unwrap_or_else(|| "quick".into());
    let spec: PropSpec = match props::spec(&prop) {
        Some(s) => s,
        None => {
            eprintln!("HARNESS-ERROR: property {} is not served by dbsim", prop);
            return 2;
        }
    };
    let seed = simcore::verif_seed();
    let runs: u64 = arg(args, "--runs").and_then(|s| s.parse().ok()).unwrap_or(if tier == "thorough" { spec.runs_thorough } else { spec.runs_quick });
    let findings = Findings::load();
    let guards = findings.active_guards();
    println!("dbsim check property={} tier={} VERIF_SEED={} runs={} guards={:?}", prop, tier, seed, runs, guards);

    // 1. known findings: replay each committed witness first
    let mut known_lines: Vec<String> = Vec::new();
    for f in findings.open_for(&prop) {
        let p = evidence::verif_root().join(&f.witness);
        match std::fs::read_to_string(&p).ok().and_then(|t| serde_json::from_str::<ReplayDoc>(&t).ok()) {
            Some(doc) => {
                let (v, _) = replay_doc(&doc);
                if v.is_some() {
                    let line = format!("KNOWN-FINDING: property={} {} [{}]", prop, f.what, f.id);
                    println!("{}", line);
                    known_lines.push(line);
                } else {
                    println!("note: witness {} of finding {} no longer violates", f.witness, f.id);
                }
            }
            None => {
                eprintln!("HARNESS-ERROR: witness {} of finding {} unreadable", f.witness, f.id);
                return 2;
            }
        }
    }

    // 2. seeded exploration
    let cfg = BatchCfg {
        runs,
        workers: simcore::runner::default_workers(),
        base_seed: seed,
        label: spec.label,
        wall_cap: Duration::from_secs(if tier == "thorough" { 3600 } else { 600 }),
        // hang detection only; C04's bulk-loaded runs execute multi-second joins five times over
        run_timeout: Duration::from_secs(if prop == "C04" { 900 } else { 300 }),
        max_samples: 3,
    };
    let (p2, g2) = (prop.clone(), guards.clone());
    let batch = run_batch(&cfg, move |run_seed, _i| props::run(&p2, run_seed, &g2));

    let mut exit = 0;
    let mut violations = 0u64;
    if !batch.harness_panics.is_empty() {
        let (i, s, p) = &batch.harness_panics[0];
        eprintln!("HARNESS-ERROR: run {} (seed {}) panicked outside the SUT: {}", i, s, p);
        exit = 2;
    }
    if !batch.hangs.is_empty() {
        let (i, s) = &batch.hangs[0];
        eprintln!("HARNESS-ERROR: run {} (seed {}) exceeded the run timeout", i, s);
        exit = 2;
    }
    if let Some((idx, run_seed, rep)) = &batch.first_violation {
        violations = batch.violations_seen;
        let v = rep.violation.as_ref().unwrap();
        let doc: ReplayDoc = serde_json::from_value(rep.replay.clone().unwrap()).unwrap();
        println!("violation in run {} (run_seed {}): oracle={} step={}", idx, run_seed, v.oracle, v.step);
        let small = props::minimise_doc(&doc);
        let dir = evidence::verif_root().join("replays");
        let _ = std::fs::create_dir_all(&dir);
        let path = dir.join(format!("{}-{}.json", prop, run_seed));
        std::fs::write(&path, serde_json::to_string_pretty(&small).unwrap()).expect("write replay");
        // confirm the minimised file reproduces in a fresh thread
        let (again, _) = replay_doc(&small);
        println!("minimised {} -> {} ops; replays: {}", doc.ops.len(), small.ops.len(), again.is_some());
        for o in &small.ops {
            println!("    {}", if o.sql.is_empty() { o.kind.name() } else { o.sql.clone() });
        }
        println!("  detail: {}", small.detail);
        println!("VIOLATION property={} replay={}", prop, path.display());
        exit = 1;
    }

    let mut extra = serde_json::Map::new();
    extra.insert("guards_active".into(), json!(guards));
    extra.insert("scenario".into(), json!(spec.scenario));
    extra.insert("quarantine_note".into(), json!(spec.quarantine_note));
    let meta = EvidenceMeta {
        property_id: &prop,
        tier: &tier,
        seed,
        level: spec.level,
        rule: spec.rule,
        engine: "dbsim",
        assumptions: spec.assumptions.iter().map(|s| s.to_string()).collect(),
        real_vs_stub: json!({
            "real": ["vibesql-parser", "vibesql-ast", "vibesql-catalog", "vibesql-storage", "vibesql-executor (compiled from /repo working tree with --cfg vibesql_verif)"],
            "controlled": ["std RandomState seeding and rand::thread_rng (getrandom crate stand-in sim/simgetrandom02) via in-binary getrandom()", "rayon operators: stand-in crate sim/simrayon; never-parallel thresholds outside scen_mask"],
            "stub": spec.stubs,
        }),
        extra,
    };
    evidence::write(&meta, &batch, violations, &known_lines);
    println!(
        "runs={} steps={} evaluations={} distinct_nontrivial={} wall={:.1}s digest={:016x}",
        batch.runs_done,
        batch.steps,
        batch.evaluations,
        batch.distinct_nontrivial.len(),
        batch.wall_s,
        batch.batch_digest
    );
    exit
}

/// Determinism selftest: every run seed executed twice must give the same event-log digest.
fn cmd_digest(args: &[String]) -> i32 {
    let prop = arg(args, "--property").expect("--property");
    let runs: u64 = arg(args, "--runs").and_then(|s| s.parse().ok()).unwrap_or(500);
    let spec = props::spec(&prop).expect("property");
    let guards = Findings::load().active_guards();
    let cfg = BatchCfg {
        runs,
        workers: simcore::runner::default_workers(),
        base_seed: simcore::verif_seed(),
        label: spec.label,
        wall_cap: Duration::from_secs(3600),
        run_timeout: Duration::from_secs(30),
        max_samples: 0,
    };
    let (p2, g2) = (prop.clone(), guards.clone());
    // VERIF_DUMP_DIGESTS=<file>: one line per run (run seed, event-log digest), to diff two processes
    let dump: std::sync::Arc<std::sync::Mutex<Vec<(u64, u64)>>> = Default::default();
    let d2 = dump.clone();
    let b = run_batch(&cfg, move |run_seed, _| {
        if std::env::var("VERIF_LOGDUMP_SEED").ok().map_or(false, |s| s.split(',').any(|x| x.parse::<u64>().ok() == Some(run_seed))) {
            eprintln!("LOG ==== run {}", run_seed);
            simcore::LOGDUMP_THREAD.with(|c| c.set(true));
        }
        let r = props::run(&p2, run_seed, &g2);
        d2.lock().unwrap().push((run_seed, r.log_digest));
        r
    });
    if let Ok(path) = std::env::var("VERIF_DUMP_DIGESTS") {
        let mut v = dump.lock().unwrap().clone();
        v.sort();
        let text: String = v.iter().map(|(s, d)| format!("{} {:016x}\n", s, d)).collect();
        let _ = std::fs::write(path, text);
    }
    println!("{} {:016x} runs={} violations={}", prop, b.batch_digest, b.runs_done, b.violations_seen);
    0
}

fn main() {
    let args: Vec<String> = std::env::args().collect();
    let code = match args.get(1).map(|s| s.as_str()) {
        Some("repl") => {
            repl();
            0
        }
        Some("check") => cmd_check(&args),
        Some("replay") => cmd_replay(args.get(2).expect("replay <file>")),
        Some("digest") => cmd_digest(&args),
        Some("one") => {
            // run a single generated run by run seed (development aid; use with VERIF_TRACE=1)
            let prop = arg(&args, "--property").expect("--property");
            let seed: u64 = arg(&args, "--run-seed").expect("--run-seed").parse().expect("u64");
            let guards = Findings::load().active_guards();
            let r = props::run(&prop, seed, &guards);
            println!("steps={} violation={:?}", r.steps, r.violation.map(|v| v.oracle));
            0
        }
        _ => {
            eprintln!("usage: dbsim repl | check --property Cxx [--tier quick|thorough] [--runs N] | replay <file> | digest --property Cxx [--runs N]");
            2
        }
    };
    std::process::exit(code);
}
