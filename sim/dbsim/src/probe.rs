//! Read-only probe queries for twin oracles. The generator needs no model: twins must agree on
//! every probe (multiset; sequence when the ORDER BY list covers the whole select list).

use crate::gen::*;
use crate::ops::*;
use crate::sut::Sut;
use crate::world::World;
use simcore::Rng;

#[derive(Clone, Debug)]
pub struct Probe {
    pub sql: String,
    /// result order fully determined by the query text (up to identical rows)
    pub total_order: bool,
    pub shape: &'static str,
}

#[derive(Clone, Copy, Debug)]
pub struct ProbeOpts {
    pub joins: bool,
    pub subqueries: bool,
    pub aggregates: bool,
    pub set_ops: bool,
    pub limit: bool,
    pub pred: PredOpts,
}

impl Default for ProbeOpts {
    fn default() -> Self {
        ProbeOpts { joins: true, subqueries: true, aggregates: true, set_ops: true, limit: true, pred: PredOpts { truthy: false, mixed_numeric: true, allow_or_not: true } }
    }
}

fn qualified_pred(rng: &mut Rng, sw: &Swarm, sut: &Sut, def: &TableDef, alias: &str, o: PredOpts) -> String {
    // single-atom predicates with the column qualified by alias
    let ci = rng.usize(def.cols.len());
    let c = &def.cols[ci];
    let l = gen_lit_for(rng, sw, sut, def, ci).sql();
    let _ = o;
    match rng.below(6) {
        0 => format!("{}.{} IS NOT NULL", alias, c.name),
        1 => format!("{}.{} IS NULL", alias, c.name),
        _ => format!("{}.{} {} {}", alias, c.name, rng.pick(&Cmp::ALL).sql(), l),
    }
}

fn int_cols(def: &TableDef) -> Vec<&ColDef> {
    def.cols.iter().filter(|c| c.ty == Ty::Int).collect()
}

/// Single-table probe biased to what index selection recognises.
pub fn single_table(rng: &mut Rng, sw: &Swarm, sut: &Sut, def: &TableDef, o: ProbeOpts) -> Probe {
    let pred = if rng.chance(1, 8) { None } else { Some(gen_pred(rng, sw, sut, def, o.pred)) };
    let wh = pred.map(|p| format!(" WHERE {}", p)).unwrap_or_default();
    let all: Vec<String> = def.cols.iter().map(|c| c.name.clone()).collect();
    match rng.below(10) {
        0..=3 => Probe { sql: format!("SELECT * FROM {}{}", def.name, wh), total_order: false, shape: "scan" },
        4..=6 => {
            // ORDER BY: a seeded leading column (index-order candidates), then every other column
            let lead = rng.usize(all.len());
            let desc = rng.chance(1, 2);
            let mut keys = vec![format!("{}{}", all[lead], if desc { " DESC" } else { "" })];
            for (i, c) in all.iter().enumerate() {
                if i != lead {
                    keys.push(c.clone());
                }
            }
            let mut sql = format!("SELECT * FROM {}{} ORDER BY {}", def.name, wh, keys.join(", "));
            if o.limit && rng.chance(1, 3) {
                sql.push_str(&format!(" LIMIT {}", rng.below(5)));
                if rng.chance(1, 2) {
                    sql.push_str(&format!(" OFFSET {}", rng.below(4)));
                }
            }
            Probe { sql, total_order: true, shape: "order_by" }
        }
        7 => {
            let c = rng.pick(&all).clone();
            Probe { sql: format!("SELECT DISTINCT {} FROM {}{}", c, def.name, wh), total_order: false, shape: "distinct" }
        }
        8 if o.aggregates => {
            let ic = int_cols(def);
            if ic.is_empty() {
                return Probe { sql: format!("SELECT COUNT(*) FROM {}{}", def.name, wh), total_order: false, shape: "agg" };
            }
            let c = &rng.pick(&ic).name;
            Probe { sql: format!("SELECT COUNT(*), COUNT({c}), MIN({c}), MAX({c}) FROM {t}{wh}", c = c, t = def.name, wh = wh), total_order: false, shape: "agg" }
        }
        _ if o.aggregates => {
            let g = rng.pick(&all).clone();
            Probe { sql: format!("SELECT {g}, COUNT(*) FROM {t}{wh} GROUP BY {g}", g = g, t = def.name, wh = wh), total_order: false, shape: "group_by" }
        }
        _ => Probe { sql: format!("SELECT * FROM {}{}", def.name, wh), total_order: false, shape: "scan" },
    }
}

/// Equality/range probes on the leading column of an index: every operator x boundary literal.
pub fn index_biased(rng: &mut Rng, sw: &Swarm, sut: &Sut, def: &TableDef, ix: &IndexDef, o: ProbeOpts) -> Probe {
    let lead = &ix.cols[0].0;
    let ci = def.col_index(lead).unwrap_or(0);
    let lit = |rng: &mut Rng| -> String {
        let l = gen_lit_for(rng, sw, sut, def, ci);
        match (&l, o.pred.mixed_numeric && rng.chance(1, 6)) {
            (Lit::Int(i), true) if i.unsigned_abs() < (1u64 << 40) => format!("{}.0", i),
            _ => l.sql(),
        }
    };
    let mut p = match rng.below(9) {
        0 => format!("{} BETWEEN {} AND {}", lead, lit(rng), lit(rng)),
        1 => format!("{} IN ({}, {})", lead, lit(rng), lit(rng)),
        2 => format!("{} > {} AND {} <= {}", lead, lit(rng), lead, lit(rng)),
        3 => format!("{} >= {} AND {} < {}", lead, lit(rng), lead, lit(rng)),
        4 => format!("{} = NULL", lead),
        _ => format!("{} {} {}", lead, rng.pick(&Cmp::ALL).sql(), lit(rng)),
    };
    if def.cols.len() >= 2 && rng.chance(1, 12) {
        // a select-list alias that shadows the indexed column: ORDER BY <alias> sorts by the aliased
        // expression, not by the stored column the index is built on
        let other = def.cols.iter().map(|c| c.name.as_str()).filter(|c| !c.eq_ignore_ascii_case(lead)).collect::<Vec<_>>();
        let o = *rng.pick(&other);
        let sql = format!("SELECT {} AS {} FROM {} ORDER BY {}", o, lead, def.name, lead);
        return Probe { sql, total_order: true, shape: "alias_shadows_indexed_column" };
    }
    if rng.chance(1, 4) {
        // ORDER BY exactly the index's key columns (all of them or a leading part) in the declared
        // directions, selecting only those columns: the sequence is fully determined by the ORDER BY, and
        // this is the shape for which an index may claim to deliver the order
        let n = if rng.chance(4, 5) { ix.cols.len() } else { 1 + rng.usize(ix.cols.len()) };
        let keys: Vec<String> = ix.cols[..n].iter().map(|(c, _, d)| format!("{}{}", c, if *d { " DESC" } else { "" })).collect();
        let sel: Vec<&str> = ix.cols[..n].iter().map(|(c, _, _)| c.as_str()).collect();
        // (rows with NULL keys make the engine re-sort: half of the probes keep them out)
        let w = match rng.below(4) {
            0 => format!(" WHERE {}", p),
            1 | 2 => format!(" WHERE {}", sel.iter().map(|c| format!("{} IS NOT NULL", c)).collect::<Vec<_>>().join(" AND ")),
            _ => String::new(),
        };
        let sql = format!("SELECT {} FROM {}{} ORDER BY {}", sel.join(", "), def.name, w, keys.join(", "));
        return Probe { sql, total_order: true, shape: "index_key_order" };
    }
    if ix.cols.len() > 1 && rng.chance(1, 2) {
        let c2 = &ix.cols[1].0;
        let ci2 = def.col_index(c2).unwrap_or(0);
        let l2 = gen_lit_for(rng, sw, sut, def, ci2).sql();
        p = format!("{} AND {} {} {}", p, c2, rng.pick(&[Cmp::Eq, Cmp::Eq, Cmp::Lt, Cmp::Ge]).sql(), l2);
    } else if rng.chance(1, 4) {
        p = format!("{} AND {}", p, gen_pred(rng, sw, sut, def, o.pred));
    }
    if rng.chance(1, 3) {
        let all: Vec<String> = def.cols.iter().map(|c| c.name.clone()).collect();
        let desc = rng.chance(1, 2);
        let mut keys = vec![format!("{}{}", lead, if desc { " DESC" } else { "" })];
        for c in &all {
            if c != lead {
                keys.push(c.clone());
            }
        }
        let mut sql = format!("SELECT * FROM {} WHERE {} ORDER BY {}", def.name, p, keys.join(", "));
        if o.limit && rng.chance(1, 3) {
            sql.push_str(&format!(" LIMIT {}", 1 + rng.below(4)));
        }
        return Probe { sql, total_order: true, shape: "index_order" };
    }
    Probe { sql: format!("SELECT * FROM {} WHERE {}", def.name, p), total_order: false, shape: "index_pred" }
}

/// Equi-join column pair between two tables (same type class); prefers FK pairs.
fn join_cols(rng: &mut Rng, a: &TableDef, b: &TableDef) -> Option<(String, String)> {
    for f in &b.fks {
        if f.parent == a.name {
            return Some((f.parent_col.clone(), b.cols[f.col].name.clone()));
        }
    }
    let mut pairs = Vec::new();
    for x in &a.cols {
        for y in &b.cols {
            if x.ty_class() == y.ty_class() {
                pairs.push((x.name.clone(), y.name.clone()));
            }
        }
    }
    if pairs.is_empty() {
        None
    } else {
        Some(rng.pick(&pairs).clone())
    }
}

pub fn multi_table(rng: &mut Rng, sw: &Swarm, sut: &Sut, world: &World, o: ProbeOpts) -> Option<Probe> {
    let names = world.table_names();
    if names.is_empty() {
        return None;
    }
    let a = &world.tables[rng.pick(&names)];
    let b = &world.tables[rng.pick(&names)];
    let (ca, cb) = join_cols(rng, a, b)?;
    let pa = qualified_pred(rng, sw, sut, a, "x", o.pred);
    let pb = qualified_pred(rng, sw, sut, b, "y", o.pred);
    let shape = rng.below(12);
    Some(match shape {
        0 | 1 if o.joins => Probe { sql: format!("SELECT x.{ca}, y.{cb}, x.c0, y.c0 FROM {a} x, {b} y WHERE x.{ca} = y.{cb} AND {pa}", ca = ca, cb = cb, a = a.name, b = b.name, pa = pa), total_order: false, shape: "comma_join" },
        2 if o.joins => Probe { sql: format!("SELECT x.c0, y.c0 FROM {a} x INNER JOIN {b} y ON x.{ca} = y.{cb} WHERE {pb}", ca = ca, cb = cb, a = a.name, b = b.name, pb = pb), total_order: false, shape: "inner_join" },
        3 if o.joins => Probe { sql: format!("SELECT x.c0, y.c0 FROM {a} x LEFT JOIN {b} y ON x.{ca} = y.{cb} WHERE {pa}", ca = ca, cb = cb, a = a.name, b = b.name, pa = pa), total_order: false, shape: "left_join" },
        4 if o.subqueries => Probe { sql: format!("SELECT * FROM {a} x WHERE x.{ca} IN (SELECT y.{cb} FROM {b} y WHERE {pb})", ca = ca, cb = cb, a = a.name, b = b.name, pb = pb), total_order: false, shape: "in_subquery" },
        5 if o.subqueries => Probe { sql: format!("SELECT * FROM {a} x WHERE EXISTS (SELECT 1 FROM {b} y WHERE y.{cb} = x.{ca} AND {pb})", ca = ca, cb = cb, a = a.name, b = b.name, pb = pb), total_order: false, shape: "exists" },
        6 if o.subqueries => Probe { sql: format!("SELECT * FROM {a} x WHERE x.{ca} NOT IN (SELECT y.{cb} FROM {b} y WHERE y.{cb} IS NOT NULL)", ca = ca, cb = cb, a = a.name, b = b.name), total_order: false, shape: "not_in" },
        7 if o.subqueries => Probe { sql: format!("SELECT * FROM {a} x WHERE NOT EXISTS (SELECT 1 FROM {b} y WHERE y.{cb} = x.{ca})", ca = ca, cb = cb, a = a.name, b = b.name), total_order: false, shape: "not_exists" },
        8 if o.subqueries => Probe { sql: format!("SELECT x.c0, (SELECT COUNT(*) FROM {b} y WHERE y.{cb} = x.{ca}) FROM {a} x WHERE {pa}", ca = ca, cb = cb, a = a.name, b = b.name, pa = pa), total_order: false, shape: "scalar_subquery" },
        9 if o.set_ops => {
            let op = *rng.pick(&["UNION", "UNION ALL", "INTERSECT", "EXCEPT"]);
            Probe { sql: format!("SELECT {ca} FROM {a} {op} SELECT {cb} FROM {b}", ca = ca, cb = cb, a = a.name, b = b.name, op = op), total_order: false, shape: "set_op" }
        }
        10 if o.subqueries => Probe { sql: format!("SELECT d.k, COUNT(*) FROM (SELECT {ca} AS k FROM {a} x WHERE {pa}) AS d GROUP BY d.k", ca = ca, a = a.name, pa = pa), total_order: false, shape: "derived" },
        _ if o.joins && o.aggregates => Probe { sql: format!("SELECT x.{ca}, COUNT(*) FROM {a} x, {b} y WHERE x.{ca} = y.{cb} GROUP BY x.{ca}", ca = ca, cb = cb, a = a.name, b = b.name), total_order: false, shape: "join_group" },
        _ => return None,
    })
}

/// A batch of probes for the current state.
pub fn batch(rng: &mut Rng, sw: &Swarm, sut: &Sut, world: &World, o: ProbeOpts, n: usize) -> Vec<Probe> {
    let mut out = Vec::new();
    let names = world.table_names();
    if names.is_empty() {
        return out;
    }
    for _ in 0..n {
        let def = &world.tables[rng.pick(&names)];
        let ixs = world.indexes_of(&def.name);
        let p = match rng.below(10) {
            0..=4 if !ixs.is_empty() => {
                let ix = *rng.pick(&ixs);
                Some(index_biased(rng, sw, sut, def, ix, o))
            }
            5 | 6 => multi_table(rng, sw, sut, world, o),
            _ => Some(single_table(rng, sw, sut, def, o)),
        };
        if let Some(p) = p {
            out.push(p);
        }
    }
    out
}
